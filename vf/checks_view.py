"""C03, C11, C13: proof audit + correspondence of the `view` op family (exact transcripts of op
sequences in attribute and emulation builds) + the property statements on the implementation."""
import itertools
from . import common as C
from . import viewfam as V

def warm(prop):
    V.build('gcc20-ubsan')

EMIT_ALWAYS = ('ob', 'o2', 'at', 'df')

def walk(c, rep, prop, cfg):
    """re-run the op sequence on an abstract pool of (handle, extents, strides, accessor id) — the property
    statement — and compare with what the implementation printed"""
    kind, sp, t, pat, acc = c.inst
    segs = c.impl.split(' | ') if c.impl != 'ok' else []
    it = iter(segs)
    pool = [None] * 4; pool2 = [None] * 2; pool3 = [None] * 2; writes = {}
    pub = dict(config=cfg, **c.pub())
    hasid = acc in ('st', 'px')
    def comp(h, es, pv, accid, ss=None):
        return dict(h=(0 if acc == 'eh' else h), e=list(es), s=V.spec_strides(kind, sp, pat, list(es), c.str if ss is None else ss, pv), acc=accid)
    def bad(k, **kw):
        rep.violation(dict(kind=k, impl=c.impl[:600], **kw, **pub)); return False
    for cmd in c.seq:
        a = cmd.split(':'); op = a[0]
        if op in ('pr', 'un'): continue
        if op in ('cpd', 'cpa', 'cad', 'caa', 'csd', 'csa', 'cex'):
            if kind == 'stride':
                if next(it, None) != 'no-ctor': return bad('constructor-from-extents-exists-for-layout_stride', cmd=cmd)
                continue
            pool[int(a[1])] = comp(int(a[2]), c.ext, None, 0 if hasid else -1); continue
        if op == 'cmp': pool[int(a[1])] = comp(int(a[2]), c.ext, c.pv, 0 if hasid else -1); continue
        if op == 'cma': pool[int(a[1])] = comp(int(a[2]), c.ext, c.pv, int(a[3]) if hasid else -1); continue
        if op == 'cm2': pool[int(a[1])] = comp(int(a[2]), c.alt[0], c.alt[2], int(a[3]) if hasid else -1, ss=c.alt[1] if c.alt[1] is not None else []); continue
        if op == 'c3': pool3[int(a[1])] = dict(pool[int(a[2])]) if pool[int(a[2])] else None; continue
        if op in ('cp', 'mv'): pool[int(a[1])] = dict(pool[int(a[2])]) if pool[int(a[2])] else None; continue
        if op in ('as', 'ma', 'sw'):
            i, j = int(a[1]), int(a[2])
            if pool[i] is None or pool[j] is None:
                if next(it, None) != 'skip': return bad('harness-desync', cmd=cmd)
                continue
            if op == 'sw': pool[i], pool[j] = pool[j], pool[i]
            else: pool[i] = dict(pool[j])
            continue
        if op == 'cv': pool2[int(a[1])] = dict(pool[int(a[2])]) if pool[int(a[2])] else None; continue
        if op == 'wr': continue
        if op == 'lg':
            seg = next(it, None)
            if prop == 'C11' and seg != 'calls=0': return bad('construction/copy/move/assign/swap/conversion-called-the-accessor (elements may have been read)', got=seg)
            continue
        if op == 'tx':
            seg = next(it, None); v = pool[int(a[1])]
            idx = [] if a[4] == '-' else [int(x) for x in a[4].split(',')]
            off = sum(i * s for i, s in zip(idx, v['s']))
            if prop == 'C03' and seg != 'threw=%d' % off: return bad('exception-thrown-by-accessor.access-does-not-propagate-out-of-the-element-access (or another element was accessed)', cmd=cmd, got=seg, specified='threw=%d' % off, form=a[2])
            continue
        if op == 'c4':
            seg = next(it, None); want = pool[int(a[2])]
            if want is None:
                if seg != 'none': return bad('empty-slot-reported-as-view', cmd=cmd, got=seg)
                continue
            if acc != 'def':
                if seg != 'no-ctor': return bad('harness-desync', cmd=cmd, got=seg)
                continue
            o = V.parse_obs(seg[3:].split(' asg=')[0]) if seg and seg.startswith('c4 ') else None
            if o is None: return bad('observation-undefined', cmd=cmd, got=seg)
            if prop == 'C11':
                if o['h'] != want['h'] or o['e'] != want['e'] or o['s'] != want['s']: return bad('converted-view-differs-in-handle-or-mapping', cmd=cmd, got=seg, specified=want)
                if o['acc'] != 77 or not seg.endswith(' asg=77'): return bad('accessor-of-the-converted-view-is-not-the-conversion-of-the-source-accessor', cmd=cmd, got=seg, specified='acc=77 (A(other.accessor())), asg=77')
            continue
        seg = next(it, None)
        if seg is None: return bad('missing-output', cmd=cmd)
        if op in ('ob', 'o2', 'o3'):
            want = (pool if op == 'ob' else pool2 if op == 'o2' else pool3)[int(a[1])]
            if want is None:
                if seg != 'none': return bad('empty-slot-reported-as-view', cmd=cmd, got=seg)
                continue
            o = V.parse_obs(seg)
            if o is None: return bad('observation-undefined', cmd=cmd, got=seg)
            if prop == 'C11':
                if o['h'] != want['h']: return bad('data_handle-differs-from-what-was-supplied', cmd=cmd, got=o['h'], specified=want['h'])
                if o['e'] != want['e'] or o['s'] != want['s']: return bad('mapping-differs-from-(the-conversion-of)-what-was-supplied', cmd=cmd, got=[o['e'], o['s']], specified=[want['e'], want['s']])
                if o['acc'] != want['acc']: return bad('accessor-differs-from-what-was-supplied', cmd=cmd, got=o['acc'], specified=want['acc'])
            if prop == 'C13':
                es = want['e']; bits = C.ITYPES[t if op == 'ob' else 'i64'][0]
                szw = C.prod(es) % (2 ** bits); emp = len(es) > 0 and any(e == 0 for e in es)
                rk = '%d,%d' % (len(es), sum(1 for p in pat if p is None) if op == 'ob' else (len(es) if op == 'o2' else 0))
                if o['sz'] != szw: return bad('size()-differs-from-product-of-extents-in-size_type', cmd=cmd, got=o['sz'], specified=szw, extents=es)
                if o['emp'] != emp: return bad('empty()-differs-from-(some-extent-is-0)', cmd=cmd, got=o['emp'], extents=es)
                if o['rk'] != rk or o['fw'] != '1' or o['e'] != es or o['s'] != want['s']:
                    return bad('rank/extent/stride/flag-forwarders-disagree-with-extents-or-mapping', cmd=cmd, got=seg, specified=dict(rk=rk, e=es, s=want['s']))
            continue
        if op == 'at':
            v = pool[int(a[1])]
            idx = [] if a[4] == '-' else [int(x) for x in a[4].split(',')]
            off = sum(i * s for i, s in zip(idx, v['s'])) + (1 if kind == 'ulog' else 0)
            if kind == 'urev': off = C.prod(v['e']) - 1 - off
            addr = v['h'] + off + (1000 if acc == 'sh' else 0)
            d = dict(x.split('=') for x in seg.split()) if seg.startswith('a=') else {}
            if prop == 'C03' and acc == 'sf':
                if seg != 'a=self': return bad('access-is-not-accessor().access(...)-of-the-view-itself (result designates an object outside the view\'s accessor)', cmd=cmd, got=seg, form=a[2])
                continue
            if prop == 'C03':
                if 'a' not in d: return bad('access-form-unavailable-or-undefined', cmd=cmd, got=seg)
                if int(d['a']) != addr: return bad('access-designates-another-element-than-data_handle()[mapping()(idx)]', cmd=cmd, got=int(d['a']), specified=addr, form=a[2], index_type=a[3])
                if kind == 'ulog' and d.get('ix', '-') != (','.join(str(x) for x in idx) or '-'):
                    return bad('mapping-did-not-receive-static_cast<index_type>(indices)...-in-order', cmd=cmd, got=d.get('ix'), specified=idx)
                if hasid and (d.get('log') != '%d,%d' % (v['h'], off) or d.get('n') != '1'):
                    return bad('access-is-not-exactly-one-accessor.access(data_handle(), mapping()(idx))', cmd=cmd, got=seg, specified='log=%d,%d n=1' % (v['h'], off))
                span = 1 + sum((e - 1) * s for e, s in zip(v['e'], v['s']))
                if kind != 'ulog' and acc != 'sh' and not (v['h'] <= addr < v['h'] + span): return bad('access-outside-[data_handle(),data_handle()+required_span_size())', cmd=cmd)
            continue
        if op == 'df':
            if op == 'df' and c.purpose == 'C03' and 'write' in c.meta:
                v = pool[0]; ix, val = c.meta['write']; woff = sum(i * s for i, s in zip(ix, v['s'])) + (1 if kind == 'ulog' else 0)
                if kind == 'urev': woff = C.prod(v['e']) - 1 - woff
                addr = v['h'] + woff + (1000 if acc == 'sh' else 0)
                if prop == 'C03' and seg != 'df=%d:%d' % (addr, val): return bad('write-through-the-view-did-not-touch-exactly-its-element', got=seg, specified='df=%d:%d' % (addr, val))
            elif prop == 'C11' and seg != 'df=-': return bad('construction/copy/move/assign/swap-wrote-to-the-elements', got=seg)
            continue
    return True

RULES = {
 'C11': 'mdspan<int, E, L, A> over 7 layouts x 4 index types x 9 extents patterns (dynamic, mixed, all-static) x {default_accessor, stateful accessor}: reaches inner pairs NN/NE/EN/EE and outer NN/NE; sequences of 2-3 constructions (pack/array/span x dynamic-only/all, extents, mapping, mapping+accessor) followed by 4-9 (thorough 10-40) copy/move/assign/move-assign/swap/convert operations with an observation after every step, element storage PROT_NONE for the whole sequence; attribute and emulation builds; non-trivial = sequence with >= 4 pool operations',
 'C03': 'same instantiations; every multi-index (<= 6 sampled) accessed as index pack, std::array, std::span and class-type indices with a random integer argument type; address returned and accessor call log compared; one write and a diff of the whole buffer; non-trivial = rank >= 1',
 'C13': 'same instantiations; observers after construction and after conversion, small extents with zeros in every position and extents whose product is at the top of the index type; non-trivial = rank >= 1',
}

def check(prop, tier, seed, replay=None):
    rep = C.Report(prop, tier, seed); audit = C.proof_audit(prop)
    # C03: the second configuration has assertions and the library's _MDSPAN_DEBUG checks live: valid accesses must not trip them
    configs = {'C11': ['gcc20-ubsan', 'gcc20-O2-ndebug-emul', 'gcc23-O0-assert-mdspandebug'], 'C03': ['gcc20-ubsan', 'gcc23-O0-assert-mdspandebug', 'gcc23-paren-bracket'], 'C13': ['gcc20-ubsan']}[prop]
    if tier == 'thorough': configs = configs + ['clang20-O0-assert', 'clang17-O0-ndebug-emul', 'gcc17-O2-assert']
    rep.cov['rule'] = RULES[prop]; rep.notes['configs'] = configs
    c14_replay = bool(replay) and str(replay.get('line', '')).startswith(('v14 ', 'map ', 'ext '))
    cases = V.gen_cases(seed, tier, {prop}) if not replay else None
    for cfg in (configs if not c14_replay else []):
        try: exe, secs, cached = V.build(cfg)
        except C.BuildError as e:
            rep.broke(dict(correspondence='view op server build (%s)' % cfg, why=str(e), log=e.log[-3000:])); continue
        rep.notes.setdefault('server_build_s', {})[cfg] = round(secs, 1)
        if replay:
            inst = next((i for i in V.G.instances() if V.G.line(i).split() == replay['line'].split()[:len(V.G.line(i).split())]), None)
            if inst is None: continue
            kv = dict(x.split('=', 1) for x in replay['line'].split() if '=' in x)
            f = lambda s: [] if s in (None, '-') else [int(x) for x in s.split(',')]
            alt = (f(kv.get('ext2')), f(kv['str2']) if 'str2' in kv else None, int(kv['pv2']) if 'pv2' in kv else None) if 'ext2' in kv else None
            cases = [V.VCase(inst, f(kv.get('ext')), f(kv['str']) if 'str' in kv else None, int(kv['pv']) if 'pv' in kv else None, kv['seq'].split('/'), replay['purpose'], replay.get('meta'), alt=alt)]
        run = cases
        if '17' in cfg.split('-')[0]:      # std::span forms exist from C++20 on (README)
            run = [c for c in cases if not any(x.startswith(('csd:', 'csa:')) or ':span:' in x for x in c.seq)]
        V.run_cases(run, exe)
        for c in run:
            rep.cov['evaluations'] += len(c.seq); rep.cov['traces_validated_against_impl'] += 1
            if len(c.ext) >= 1: rep.nontrivial(c.line())
            if c.impl != c.model:
                si, sm = c.impl.split(' | '), c.model.split(' | ')
                k = next((q for q, (x, y) in enumerate(zip(si, sm)) if x != y), min(len(si), len(sm)))
                rep.broke(dict(correspondence='view family, exact transcript', config=cfg, first_differing_observation=k, impl=(si[k] if k < len(si) else None), model=(sm[k] if k < len(sm) else None), **c.pub()))
            if c.impl in ('ub', 'segv') or c.impl.startswith('died'):
                rep.violation(dict(kind={'segv': 'element-storage-touched-while-protected', 'ub': 'undefined-behaviour-in-view-operation'}.get(c.impl, 'server-died'), impl=c.impl, config=cfg, **c.pub())); continue
            ok = walk(c, rep, prop, cfg)
            if ok and len(c.ext) >= 2: rep.sample(dict(line=c.line()[:400], output=c.impl[:300]), cap=4)
    if prop == 'C13' and (not replay or c14_replay):
        # the C++14 fold emulations behind size() / empty(): the C++14-only server under UBSan; extents with a zero whose
        # other extents multiply beyond the (signed) index type - the product is 0 and must be formed in size_type
        import random
        from . import checks_c15 as K15
        rnd = random.Random(seed + 13); lines = K15.c14_lines(rnd, 150 if tier == 'quick' else 1500)
        for t in ('i32', 'i64', 'i16'):
            H = C.hi(t); b = int(H ** 0.5) + rnd.randint(2, 50)
            for _ in range(6):
                b1, b2 = b + rnd.randint(0, 9), b + rnd.randint(0, 9)
                lines.append('v14 right %s pat=D,D,D ext=%d,%d,0 obs' % (t, b1, b2)); lines.append('v14 left %s pat=D,D,D ext=0,%d,%d obs' % (t, b1, b2))
                lines.append('v14 right %s pat=D,D ext=%d,0 obs' % (t, H)); lines.append('v14 left %s pat=D,D ext=0,%d obs' % (t, H))
        if c14_replay: lines = [replay['line']]
        m14 = [V.canon(x) for x in C.driver(lines)]
        for cfg in (['gcc14-ubsan'] if tier == 'quick' else ['gcc14-ubsan', 'clang14-ubsan', 'gcc14-O0-assert-emul']):
            try: exe, secs, cached = C.cxx_build('c14srv', [C.os.path.join(C.HARNESS, 'c14srv.cpp')], config=cfg)
            except C.BuildError as e:
                rep.broke(dict(correspondence='C++14 server build (%s)' % cfg, why=str(e), log=e.log[-2000:])); continue
            out = [V.canon(x) for x in C.pipe(exe, lines)]
            for l, xi, xm in zip(lines, out, m14):
                rep.cov['evaluations'] += 1
                if not l.startswith('v14'): continue
                if xm == 'ub': continue
                if xi != xm:
                    es = [int(x) for x in dict(t.split('=') for t in l.split() if '=' in t)['ext'].split(',')] if ' ext=-' not in l else []
                    rep.violation(dict(kind='C++14: size()/empty()/observers of mdspan differ from the extents (fold emulation)' if xi != 'ub' else 'C++14: undefined behaviour in mdspan::size()/empty() for a valid mapping',
                                       line=l, impl=xi, specified='sz=%d emp=%d ...' % (C.prod(es), 1 if (es and 0 in es) else 0), model=xm, config=cfg)); continue
                rep.nontrivial(l)
        rep.notes['cxx14_lines'] = len(lines)
    rep.assumptions = ['references and pointers are modelled as addresses (offsets from the buffer base)', 'outer compressed-pair specialisations with an empty data handle are not instantiated']
    return rep.finish(audit)
