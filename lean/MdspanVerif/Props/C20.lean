import MdspanVerif.Props.C02
/-!
# C20 — debug builds reject layout_stride → left/right conversion with wrong strides
-/
namespace Mdspan

/-- the stride walk of `layout_left::mapping(layout_stride::mapping const&)` without NDEBUG:
    `stride = 1; for r: if (stride != other.stride(r)) abort(); stride *= extent(r);` -/
def walkLeftFrom : Nat → List Nat → List Nat → Bool
  | stride, e :: es, s :: ss => if stride ≠ s then true else walkLeftFrom (stride * e) es ss
  | _, _, _ => false
def walkLeft (es ss : List Nat) : Bool := walkLeftFrom 1 es ss

/-- the walk of layout_right goes from the last dimension to the first -/
def walkRight (es ss : List Nat) : Bool := walkLeftFrom 1 es.reverse ss.reverse

theorem walkLeftFrom_iff : ∀ (p : Nat) (es ss : List Nat), es.length = ss.length →
    (walkLeftFrom p es ss = true ↔ ss ≠ leftStridesFrom p es)
  | p, [], [], _ => by simp [walkLeftFrom, leftStridesFrom]
  | p, e :: es, s :: ss, h => by
    have ih := walkLeftFrom_iff (p * e) es ss (by simpa using h)
    simp only [walkLeftFrom, leftStridesFrom]
    by_cases hps : p = s
    · subst hps; simp [ih]
    · have : ¬ (s = p) := fun h => hps h.symm
      simp [hps, this]
  | _, [], _ :: _, h => by simp at h
  | _, _ :: _, [], h => by simp at h

/-- **C20 (layout_left)**: the conversion aborts exactly when the strides are not the canonical
    column-major strides of the same extents; rank 0 never aborts. -/
theorem C20_left (es ss : List Nat) (h : es.length = ss.length) :
    walkLeft es ss = true ↔ ss ≠ leftStrides es := walkLeftFrom_iff 1 es ss h

theorem prod_append (a b : List Nat) : prod (a ++ b) = prod a * prod b := by
  induction a with
  | nil => simp [prod]
  | cons x xs ih => simp [prod, ih, Nat.mul_assoc]

theorem leftStridesFrom_append (p : Nat) : ∀ (l : List Nat) (e : Nat),
    leftStridesFrom p (l ++ [e]) = leftStridesFrom p l ++ [p * prod l]
  | [], e => by simp [leftStridesFrom, prod]
  | x :: xs, e => by
    simp only [List.cons_append, leftStridesFrom, prod]
    rw [leftStridesFrom_append (p * x) xs e, Nat.mul_assoc]

theorem prod_reverse (l : List Nat) : prod l.reverse = prod l := by
  induction l with
  | nil => rfl
  | cons x xs ih => simp [prod, prod_append, ih, Nat.mul_comm]

theorem rightStrides_reverse : ∀ es : List Nat, (rightStrides es).reverse = leftStrides es.reverse
  | [] => rfl
  | e :: es => by
    simp only [rightStrides, List.reverse_cons, leftStrides]
    rw [leftStridesFrom_append, ← leftStrides, ← rightStrides_reverse es, prod_reverse, Nat.one_mul]

/-- **C20 (layout_right)** -/
theorem C20_right (es ss : List Nat) (h : es.length = ss.length) :
    walkRight es ss = true ↔ ss ≠ rightStrides es := by
  unfold walkRight
  rw [walkLeftFrom_iff 1 es.reverse ss.reverse (by simp [h]), ← leftStrides, ← rightStrides_reverse]
  constructor
  · intro hne heq; exact hne (by rw [heq])
  · intro hne heq; exact hne (by have := congrArg List.reverse heq; simpa using this)

/-- valid input never trips the check (the part of C15 about this assertion) -/
theorem C20_canonical_passes (es : List Nat) :
    walkLeft es (leftStrides es) = false ∧ walkRight es (rightStrides es) = false := by
  constructor
  · cases h : walkLeft es (leftStrides es) with
    | false => rfl
    | true =>
      exact absurd rfl ((C20_left es (leftStrides es) (by simp [leftStrides, leftStridesFrom_length])).mp h)
  · cases h : walkRight es (rightStrides es) with
    | false => rfl
    | true =>
      exact absurd rfl ((C20_right es (rightStrides es) (by simp [rightStrides_length])).mp h)

end Mdspan
