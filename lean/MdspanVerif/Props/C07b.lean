import MdspanVerif.Props.C07Padded
/-!
# C07 — `is_exhaustive()` of the padded layouts: layout_right_padded and the rank ≤ 1 cases

A layout_right_padded mapping is a layout_right mapping over the allocation extents
`replaceLast ps es`; it covers its span exactly when the last extent equals the padded
stride, which is what `is_exhaustive()` tests.
-/
namespace Mdspan

/-- replacing the last extent by itself changes nothing -/
theorem replaceLast_eq_self_of_last (ps : Nat) : ∀ es : List Nat, es.getLast? = some ps → replaceLast ps es = es
  | [], h => by simp at h
  | [e], h => by simp at h; simp [replaceLast, h]
  | e :: e' :: es, h => by
    have h' : (e' :: es).getLast? = some ps := by simpa [List.getLast?_cons_cons] using h
    simp only [replaceLast]
    rw [replaceLast_eq_self_of_last ps (e' :: es) h']

/-- under `LeL es (replaceLast ps es)` the last extent is at most the padded stride -/
theorem last_le_of_leL_replaceLast (ps : Nat) : ∀ (es : List Nat) (el : Nat),
    LeL es (replaceLast ps es) → es.getLast? = some el → el ≤ ps
  | [], _, _, h => by simp at h
  | [e], el, hle, h => by
    simp at h; subst h
    simpa [replaceLast, LeL] using hle
  | e :: e' :: es, el, hle, h => by
    have h' : (e' :: es).getLast? = some el := by simpa [List.getLast?_cons_cons] using h
    simp only [replaceLast, LeL] at hle
    exact last_le_of_leL_replaceLast ps (e' :: es) el hle.2 h'

/-- **C07, layout_right_padded**, rank ≥ 2, valid, non-empty index space: `is_exhaustive()`
    is true exactly when the mapping covers its whole span -/
theorem C07_rpad (ps e e' : Nat) (es : List Nat) (hv : (Layout.rpad (e :: e' :: es) ps).Valid)
    (hpos : ∀ x ∈ e :: e' :: es, 0 < x) :
    (Layout.rpad (e :: e' :: es) ps).isExhaustive = true ↔ (Layout.rpad (e :: e' :: es) ps).Covers := by
  have hle : LeL (e :: e' :: es) (replaceLast ps (e :: e' :: es)) := by
    rcases hv with h | h
    · simp at h; omega
    · exact h
  have hex : (Layout.rpad (e :: e' :: es) ps).isExhaustive = true ↔
      (e :: e' :: es).getLast? = some ps := by
    simp only [Layout.isExhaustive, List.length_cons, Bool.or_eq_true, decide_eq_true_eq, beq_iff_eq]
    constructor
    · rintro (h | h)
      · omega
      · exact h
    · intro h; exact Or.inr h
  have hspan : (Layout.rpad (e :: e' :: es) ps).span = prod (replaceLast ps (e :: e' :: es)) :=
    C05_rpad_upper ps e e' es
  rw [hex]
  constructor
  · intro h
    -- identical to layout_right on the same extents
    have hrl := replaceLast_eq_self_of_last ps (e :: e' :: es) h
    intro o ho
    obtain ⟨is, hb, hd⟩ := C07_right (e :: e' :: es) o (by
      rw [hspan, hrl] at ho; exact ho)
    refine ⟨is, hb, ?_⟩
    have hlen : is.length = (e :: e' :: es).length := inB_length _ _ hb
    rw [C02_right _ _ hlen] at hd
    rw [C02_rpad ps _ _ hlen]
    simp only [rpadStrides, hrl]; exact hd
  · intro hc
    obtain ⟨el, hl, hf⟩ := rpad_span_formula ps (e :: e' :: es) (by simp) hpos
    have hel := last_le_of_leL_replaceLast ps _ el hle hl
    rcases Nat.lt_or_ge el ps with hlt | hge
    · exfalso
      -- span - 1 is not attained
      obtain ⟨is, hb, hd⟩ := hc (prod (replaceLast ps (e :: e' :: es)) - 1) (by rw [hspan]; omega)
      have hmax := offset_le_spanM1 (Layout.rpad (e :: e' :: es) ps)
        (by simp [Layout.strides, Layout.extents, rpadStrides_length]) is hb
      simp only [Layout.extents, Layout.strides, rpadStrides] at hmax
      omega
    · have : el = ps := by omega
      rw [hl, this]

/-! ### rank 0 and rank 1: no padding is applied, always exhaustive, always covering -/

theorem C07_lpad_rank0 (ps : Nat) :
    (Layout.lpad [] ps).isExhaustive = true ∧ (Layout.lpad [] ps).Covers := by
  refine ⟨rfl, ?_⟩
  intro o ho
  refine ⟨[], trivial, ?_⟩
  simp only [Layout.span, lpadSpan] at ho
  simp only [Layout.offset, lpadOff]; omega

theorem C07_rpad_rank0 (ps : Nat) :
    (Layout.rpad [] ps).isExhaustive = true ∧ (Layout.rpad [] ps).Covers := by
  refine ⟨rfl, ?_⟩
  intro o ho
  refine ⟨[], trivial, ?_⟩
  simp only [Layout.span, rpadSpan] at ho
  simp only [Layout.offset, rpadOff]; omega

theorem C07_lpad_rank1 (ps e : Nat) :
    (Layout.lpad [e] ps).isExhaustive = true ∧ (Layout.lpad [e] ps).Covers := by
  refine ⟨rfl, ?_⟩
  intro o ho
  simp only [Layout.span, lpadSpan] at ho
  exact ⟨[o], ⟨ho, trivial⟩, rfl⟩

theorem C07_rpad_rank1 (ps e : Nat) :
    (Layout.rpad [e] ps).isExhaustive = true ∧ (Layout.rpad [e] ps).Covers := by
  refine ⟨rfl, ?_⟩
  intro o ho
  simp only [Layout.span, rpadSpan] at ho
  exact ⟨[o], ⟨ho, trivial⟩, rfl⟩

/-- both padded layouts, any rank: for a valid mapping with a non-empty index space
    `is_exhaustive()` is exact -/
theorem C07_padded (es : List Nat) (ps : Nat) (hpos : ∀ x ∈ es, 0 < x) :
    ((Layout.lpad es ps).Valid →
      ((Layout.lpad es ps).isExhaustive = true ↔ (Layout.lpad es ps).Covers)) ∧
    ((Layout.rpad es ps).Valid →
      ((Layout.rpad es ps).isExhaustive = true ↔ (Layout.rpad es ps).Covers)) := by
  match es, hpos with
  | [], _ =>
    exact ⟨fun _ => iff_of_true (C07_lpad_rank0 ps).1 (C07_lpad_rank0 ps).2,
      fun _ => iff_of_true (C07_rpad_rank0 ps).1 (C07_rpad_rank0 ps).2⟩
  | [e], _ =>
    exact ⟨fun _ => iff_of_true (C07_lpad_rank1 ps e).1 (C07_lpad_rank1 ps e).2,
      fun _ => iff_of_true (C07_rpad_rank1 ps e).1 (C07_rpad_rank1 ps e).2⟩
  | e :: e' :: es, hpos =>
    exact ⟨fun hv => C07_lpad ps e e' es hv hpos, fun hv => C07_rpad ps e e' es hv hpos⟩

/-! ## non-vacuity -/

-- padded: not exhaustive, and indeed offset 39 = span - 1 is never produced
example : (Layout.rpad [2, 3, 5] 8).isExhaustive = false := by decide
example : ¬ (Layout.rpad [2, 3, 5] 8).Covers := by
  have hv : (Layout.rpad [2, 3, 5] 8).Valid := by simp [Layout.Valid, PadOKRight, replaceLast, LeL]
  intro hc
  have := (C07_rpad 8 2 3 [5] hv (by simp)).mpr hc
  revert this; decide
-- unpadded (padded stride = last extent): exhaustive and covering
example : (Layout.rpad [2, 3, 8] 8).Covers :=
  (C07_rpad 8 2 3 [8] (by simp [Layout.Valid, PadOKRight, replaceLast, LeL]) (by simp)).mp (by decide)

end Mdspan
