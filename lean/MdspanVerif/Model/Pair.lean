/-!
# The four `__compressed_pair` specialisations and `__no_unique_address_emulation`

An "empty" C++ class has exactly one observable value; it is modelled by a type with a
distinguished value that every value equals.  A specialisation that stores an empty component
as a base class does not store it at all: reading it yields that value.
-/
namespace Mdspan

class EmptyT (α : Type) where
  val : α
  all_eq : ∀ a : α, a = val

/-- neither empty (also the `[[no_unique_address]]` case) -/
structure PairNN (α β : Type) where
  t1 : α
  t2 : β
/-- first empty: derives from `_T1`, stores `_T2` -/
structure PairEN (α β : Type) where
  t2 : β
/-- second empty -/
structure PairNE (α β : Type) where
  t1 : α
/-- both empty: two disambiguated empty bases -/
structure PairEE (α β : Type) where
  unit : Unit := ()

def PairNN.mk' {α β} (a : α) (b : β) : PairNN α β := ⟨a, b⟩
def PairNN.first {α β} (p : PairNN α β) : α := p.t1
def PairNN.second {α β} (p : PairNN α β) : β := p.t2

def PairEN.mk' {α β} (_ : α) (b : β) : PairEN α β := ⟨b⟩
def PairEN.first {α β} [EmptyT α] (_ : PairEN α β) : α := EmptyT.val
def PairEN.second {α β} (p : PairEN α β) : β := p.t2

def PairNE.mk' {α β} (a : α) (_ : β) : PairNE α β := ⟨a⟩
def PairNE.first {α β} (p : PairNE α β) : α := p.t1
def PairNE.second {α β} [EmptyT β] (_ : PairNE α β) : β := EmptyT.val

def PairEE.mk' {α β} (_ : α) (_ : β) : PairEE α β := {}
def PairEE.first {α β} [EmptyT α] (_ : PairEE α β) : α := EmptyT.val
def PairEE.second {α β} [EmptyT β] (_ : PairEE α β) : β := EmptyT.val

/-- every specialisation refines the ordinary pair -/
theorem PairNN.first_mk {α β} (a : α) (b : β) : (PairNN.mk' a b).first = a := rfl
theorem PairNN.second_mk {α β} (a : α) (b : β) : (PairNN.mk' a b).second = b := rfl
theorem PairEN.first_mk {α β} [EmptyT α] (a : α) (b : β) : (PairEN.mk' a b).first = a :=
  (EmptyT.all_eq a).symm
theorem PairEN.second_mk {α β} (a : α) (b : β) : (PairEN.mk' a b).second = b := rfl
theorem PairNE.first_mk {α β} (a : α) (b : β) : (PairNE.mk' a b).first = a := rfl
theorem PairNE.second_mk {α β} [EmptyT β] (a : α) (b : β) : (PairNE.mk' a b).second = b :=
  (EmptyT.all_eq b).symm
theorem PairEE.first_mk {α β} [EmptyT α] (a : α) (b : β) : (PairEE.mk' (β := β) a b).first = a :=
  (EmptyT.all_eq a).symm
theorem PairEE.second_mk {α β} [EmptyT β] (a : α) (b : β) : (PairEE.mk' (α := α) a b).second = b :=
  (EmptyT.all_eq b).symm

end Mdspan
