import MdspanVerif.Model.LayoutM
import MdspanVerif.Model.Sub
/-!
# Machine-level mirror of submdspan_extents / submdspan_mapping

Slice members are `index_type` values.  `fixed = false` mirrors the pinned tree
(offset = mapping(first_of...), stride_of = slice.stride), `fixed = true` the repaired one.
-/
namespace Mdspan

inductive SliceI
  | idx (i : Int)
  | range (b e : Int)
  | full
  | strided (o x s : Int)
deriving DecidableEq, Repr

namespace SliceI
def isIdx : SliceI → Bool | idx _ => true | _ => false
def first : SliceI → Int
  | idx i => i | range b _ => b | full => 0 | strided o _ _ => o
def toKind : SliceI → Slice
  | idx _ => .idx 0 | range _ _ => .range 0 0 | full => .full | strided _ _ _ => .strided 0 0 0
end SliceI

/-- one result extent (`extents_constructor::next_extent`) -/
def subExtentM (T : ITy) (e : Int) : SliceI → M (Option Int)
  | .idx _ => pure none
  | .range b e' => do let d ← V.sub ⟨T, e'⟩ ⟨T, b⟩; pure (some (narrow T d))
  | .full => do let d ← V.sub ⟨T, e⟩ ⟨T, 0⟩; pure (some (narrow T d))
  | .strided _ x s =>
    if V.lt ⟨.i32, 0⟩ ⟨T, x⟩ then do
      let xm1 ← V.sub ⟨T, x⟩ ⟨.i32, 1⟩
      let q ← V.div ⟨T, narrow T xm1⟩ ⟨T, s⟩
      let r ← V.add ⟨.i32, 1⟩ q
      pure (some (narrow T r))
    else pure (some 0)

def subExtsM (T : ITy) : List SliceI → List Int → M (List Int)
  | sl :: sls, e :: es => do
      let x ← subExtentM T e sl
      let rest ← subExtsM T sls es
      pure (match x with | none => rest | some v => v :: rest)
  | _, _ => pure []

/-- `stride_of` -/
def strideOfM (T : ITy) (fixed : Bool) : SliceI → Int
  | .strided _ x s => if fixed then (if V.lt ⟨T, s⟩ ⟨T, x⟩ then s else 1) else s
  | _ => 1

/-- `construct_sub_strides` -/
def subStridesM (T : ITy) (fixed : Bool) : List SliceI → List Int → M (List Int)
  | sl :: sls, s :: ss => do
      let rest ← subStridesM T fixed sls ss
      if sl.isIdx then pure rest
      else do
        let m ← V.mul ⟨T, s⟩ ⟨T, T.wrap (strideOfM T fixed sl)⟩
        pure (narrow T m :: rest)
  | _, _ => pure []

def anyAtEndI : List SliceI → List Int → Bool
  | sl :: sls, e :: es => sl.first == e || anyAtEndI sls es
  | _, _ => false

end Mdspan
