import MdspanVerif.Model.LayoutM
/-!
# Machine mirrors of the padded layouts' constructors, `strides()` and flags

`PadSpec` is the compile-time part of a padded mapping type: the `padding_value` template
argument (`none` = `dynamic_extent`) and the static extent at the extent-to-pad position
(`none` = dynamic).
-/
namespace Mdspan

/-- `value *= x` on an `index_type` variable -/
def mulAssignM (T : ITy) (v x : Int) : M Int := do
  let m ← V.mul ⟨T, v⟩ ⟨T, x⟩
  pure (narrow T m)

/-- `layout_left_padded::strides()` for rank ≥ 2: the running product after `s[0] = 1` -/
def lpadStridesGoM (T : ITy) (v : Int) : List Int → M (List Int)
  | [] => pure []
  | [_] => pure [v]
  | e :: es => do
      let v' ← mulAssignM T v e
      let rest ← lpadStridesGoM T v' es
      pure (v :: rest)
def lpadStridesArrM (T : ITy) (ps : Int) : List Int → M (List Int)
  | [] => pure []
  | [_] => pure [1]
  | _ :: es => do
      let v ← mulAssignM T 1 ps
      let rest ← lpadStridesGoM T v es
      pure (1 :: rest)

/-- `layout_right_padded::strides()` for rank ≥ 2, on the reversed leading extents -/
def rpadStridesArrM (T : ITy) (ps : Int) : List Int → M (List Int)
  | [] => pure []
  | [_] => pure [1]
  | es => do
      let v ← mulAssignM T 1 ps
      let rest ← lpadStridesGoM T v es.dropLast.reverse
      pure (rest.reverse ++ [1])

/-- `find_next_multiple` evaluated on `size_t` template arguments
    (`get_actual_static_padding_value`) -/
def staticPaddedStride (sp se : Nat) : Int :=
  match findNextMultipleM .u64 sp se with
  | .ok v => v
  | .error _ => 0

/-- the padded stride a padded mapping holds after construction from extents (and an optional
    run-time padding value); `rank ≤ 1` stores nothing.
    * both `padding_value` and the extent-to-pad static: the compile-time value, whatever is passed;
    * `mapping(ext, pv)`: `find_next_multiple(pv, extent)` in `index_type`;
    * `mapping(ext)`: the extent itself for `padding_value == dynamic_extent`, otherwise
      `find_next_multiple(index_type(padding_value), extent)`. -/
def padStrideCtorM (T : ITy) (sp : Option Nat) (se : Option Nat) (pv : Option Int) (rank : Nat) (epad : Int) : M Int :=
  if rank < 2 then pure 0
  else match sp, se with
    | some p, some e => pure (T.wrap (staticPaddedStride p e))
    | _, _ =>
      match pv with
      | some v => findNextMultipleM T (T.wrap v) epad
      | none =>
        match sp with
        | none => pure epad
        | some p => findNextMultipleM T (T.wrap p) epad

/-- `is_exhaustive()` of a padded mapping -/
def padIsExh (rank : Nat) (epad ps : Int) : Bool := rank < 2 || epad == ps

/-- `is_always_exhaustive()` of a padded mapping type -/
def padIsAlwaysExh (sp se : Option Nat) (rank : Nat) : Bool :=
  rank ≤ 1 ||
    match se with
    | none => false
    | some e =>
      match sp with
      | some p => (e : Int) == staticPaddedStride p e
      | none => false

end Mdspan

namespace Mdspan
/-- `layout_stride::mapping()` → `strides_storage(true_type)`:
    `index_type stride = 1; for (r = rank-1; r >= 0; r--) { s[r] = stride; stride *= e.extent(r); }`
    (over the reversed extents, producing the reversed strides) -/
def defaultStridesGoM (T : ITy) (stride : Int) : List Int → M (List Int)
  | [] => pure []
  | e :: es => do
      let s' ← mulAssignM T stride e
      let rest ← defaultStridesGoM T s' es
      pure (stride :: rest)
def defaultStridesM (T : ITy) (es : List Int) : M (List Int) := do
  let r ← defaultStridesGoM T 1 es.reverse
  pure r.reverse
end Mdspan
