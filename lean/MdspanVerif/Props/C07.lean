import MdspanVerif.Props.C05
/-!
# C07 — is_unique / is_exhaustive / is_strided never overstate
-/
namespace Mdspan

/-- every offset below the span is produced by some multi-index -/
def Layout.Covers (L : Layout) : Prop :=
  ∀ o, o < L.span → ∃ is, InB is L.extents ∧ L.offset is = o

/-- `layout_stride::is_exhaustive`, all four branches, in the order of the code -/
def argmaxStride : Nat → Nat → Nat → List Nat → Nat   -- (best index, best value, current index, rest)
  | best, _, _, [] => best
  | best, bv, r, s :: ss => if s > bv then argmaxStride r s (r + 1) ss else argmaxStride best bv (r + 1) ss

def zeroOtherThan (rl : Nat) : Nat → List Nat → Bool
  | _, [] => false
  | r, e :: es => (e == 0 && r != rl) || zeroOtherThan rl (r + 1) es

def isExhStride (es ss : List Nat) : Bool :=
  match es, ss with
  | [], _ => true
  | es, ss =>
    let span := spanStride es ss
    if span == 0 then
      match es, ss with
      | [_], [s] => s == 1
      | _, s0 :: ss' => !(zeroOtherThan (argmaxStride 0 s0 1 ss') 0 es)
      | _, [] => true
    else span == prod es

def Layout.isExhaustive : Layout → Bool
  | .left _ | .right _ => true
  | .stride es ss => isExhStride es ss
  | .lpad es ps => es.length < 2 || es.head? == some ps
  | .rpad es ps => es.length < 2 || es.getLast? == some ps

def Layout.isUnique : Layout → Bool := fun _ => true
def Layout.isStrided : Layout → Bool := fun _ => true

/-- bridge between the list form and the pair form of "covers" -/
theorem inBP_zip : ∀ (is es ss : List Nat), es.length = ss.length →
    (InBP is (List.zip es ss) ↔ InB is es)
  | [], [], [], _ => by simp [InBP, InB]
  | i :: is, e :: es, s :: ss, h => by
    simp only [List.zip_cons_cons, InBP, InB, inBP_zip is es ss (by simpa using h)]
  | [], e :: es, s :: ss, _ => by simp [InBP, InB]
  | i :: is, [], [], _ => by simp [InBP, InB]
  | _, [], _ :: _, h => by simp at h
  | _, _ :: _, [], h => by simp at h

theorem dotP_zip : ∀ (is es ss : List Nat), InB is es → es.length = ss.length →
    dotP is (List.zip es ss) = dot is ss
  | [], [], [], _, _ => rfl
  | i :: is, e :: es, s :: ss, hb, h => by
    simp only [List.zip_cons_cons, dotP, dot, dotP_zip is es ss hb.2 (by simpa using h)]
  | [], _ :: _, _, hb, _ => by simp [InB] at hb
  | _ :: _, [], _, hb, _ => by simp [InB] at hb
  | [], [], _ :: _, _, h => by simp at h
  | _ :: _, _ :: _, [], _, h => by simp at h

theorem prodP_zip : ∀ (es ss : List Nat), es.length = ss.length → prodP (List.zip es ss) = prod es
  | [], [], _ => rfl
  | e :: es, s :: ss, h => by simp [prodP, prod, prodP_zip es ss (by simpa using h)]
  | [], _ :: _, h => by simp at h
  | _ :: _, [], h => by simp at h

/-- for a valid strided mapping with a non-empty index space:
    its image is `[0, 1+Σ(e-1)s)` exactly when `1+Σ(e-1)s = Π e` -/
theorem covers_iff_span_eq_prod (es ss : List Nat) (hv : ValidStrides es ss)
    (hpos : ∀ e ∈ es, 0 < e) :
    (∀ o, o ≤ spanM1 (List.zip es ss) → ∃ is, InB is es ∧ dot is ss = o) ↔
      spanM1 (List.zip es ss) + 1 = prod es := by
  obtain ⟨hl, l, hperm, hdesc⟩ := hv
  have hposl : ∀ d ∈ l, 0 < d.1 := by
    intro d hd
    have : d ∈ List.zip es ss := hperm.mem_iff.mp hd
    exact hpos d.1 (List.of_mem_zip this).1
  have hiff := coversP_iff l hposl hdesc
  rw [spanM1_perm hperm, prodP_perm hperm, prodP_zip es ss hl] at hiff
  rw [← hiff]
  constructor
  · intro h
    apply coversP_perm (l1 := List.zip es ss) hperm
    intro o ho
    obtain ⟨is, hb, hd⟩ := h o ho
    exact ⟨is, (inBP_zip is es ss hl).mpr hb, by rw [dotP_zip is es ss hb hl, hd]⟩
  · intro h o ho
    have hc : CoversP (List.zip es ss) := coversP_perm (l1 := l) hperm.symm h
    obtain ⟨is, hb, hd⟩ := hc o ho
    have hb' := (inBP_zip is es ss hl).mp hb
    exact ⟨is, hb', by rw [← dotP_zip is es ss hb' hl, hd]⟩

/-- **C07, layout_stride**: for a non-empty index space and valid strides, `is_exhaustive()`
    is true exactly when the mapping covers its whole span. -/
theorem C07_stride (es ss : List Nat) (hv : ValidStrides es ss) (hpos : ∀ e ∈ es, 0 < e) :
    (Layout.stride es ss).isExhaustive = true ↔ (Layout.stride es ss).Covers := by
  have hsp := spanStrideGo_pos 1 es ss hpos hv.1
  have hspan : spanStride es ss = spanM1 (List.zip es ss) + 1 := by rw [spanStride, hsp]; omega
  have hne : (spanStride es ss == 0) = false := by rw [hspan]; simp
  have hex : (Layout.stride es ss).isExhaustive = (spanStride es ss == prod es) := by
    cases es with
    | nil => cases ss with
      | nil => simp [Layout.isExhaustive, isExhStride, spanStride, spanStrideGo, prod]
      | cons s ss => have := hv.1; simp at this
    | cons e es => simp only [Layout.isExhaustive, isExhStride, hne]; rfl
  rw [hex, beq_iff_eq, hspan, ← covers_iff_span_eq_prod es ss hv hpos]
  simp only [Layout.Covers, Layout.span, Layout.extents, Layout.offset, hspan]
  constructor
  · intro h o ho; exact h o (by omega)
  · intro h o ho; exact h o (by omega)

/-- **C07, layout_left / layout_right** are always exhaustive -/
theorem C07_right (es : List Nat) : (Layout.right es).Covers := by
  intro o ho
  have hpos : ∀ e ∈ es, 0 < e := by
    intro e he
    rcases Nat.eq_zero_or_pos e with h0 | h0
    · exfalso; subst h0
      have := (prod_eq_zero_iff es).mpr he
      simp [Layout.span, spanLR, this] at ho
    · exact h0
  have hv := valid_right_le es es (leL_refl es) hpos
  have heq := span_right_eq es hpos
  obtain ⟨is, hb, hd⟩ := (covers_iff_span_eq_prod es (rightStrides es) hv hpos).mpr heq o
    (by simp only [Layout.span, spanLR] at ho; omega)
  exact ⟨is, hb, by rw [C02_right es is (inB_length _ _ hb)]; exact hd⟩

theorem C07_left (es : List Nat) : (Layout.left es).Covers := by
  intro o ho
  have hpos : ∀ e ∈ es, 0 < e := by
    intro e he
    rcases Nat.eq_zero_or_pos e with h0 | h0
    · exfalso; subst h0
      have := (prod_eq_zero_iff es).mpr he
      simp [Layout.span, spanLR, this] at ho
    · exact h0
  have hv := valid_left_le es es (leL_refl es) hpos
  have heq : spanM1 (List.zip es (leftStrides es)) + 1 = prod es := by
    have := span_left_eq 1 es hpos; simp only [leftStrides]; omega
  obtain ⟨is, hb, hd⟩ := (covers_iff_span_eq_prod es (leftStrides es) hv hpos).mpr heq o
    (by simp only [Layout.span, spanLR] at ho; omega)
  exact ⟨is, hb, by rw [C02_left es is (inB_length _ _ hb)]; exact hd⟩

/-- `is_strided()` is true and the offset is Σ i_r·stride(r); `is_unique()` is true and the
    mapping is injective (C01). -/
theorem C07_strided (L : Layout) (is : List Nat) (h : is.length = L.extents.length) :
    L.isStrided = true ∧ L.offset is = dot is L.strides := ⟨rfl, offset_eq_dot L is h⟩
theorem C07_unique (L : Layout) (hv : L.Valid) (is js : List Nat) (hi : InB is L.extents)
    (hj : InB js L.extents) (h : L.offset is = L.offset js) : L.isUnique = true ∧ is = js :=
  ⟨rfl, C01_inj L hv is js hi hj h⟩

end Mdspan
