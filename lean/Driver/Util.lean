import MdspanVerif.Model.Int
/-! Line-protocol helpers of the model driver (parsing, canonical printing). -/
open Mdspan

namespace Drv

def parseTy : String → Option ITy
  | "i8" => some .i8 | "u8" => some .u8 | "i16" => some .i16 | "u16" => some .u16
  | "i32" => some .i32 | "u32" => some .u32 | "i64" => some .i64 | "u64" => some .u64
  | _ => none

def parseList (s : String) : List Int :=
  if s == "-" || s == "" then [] else (s.splitOn ",").filterMap String.toInt?

/-- extents pattern `D,3,D` → `[none, some 3, none]` -/
def parsePat (s : String) : List (Option Nat) :=
  if s == "-" || s == "" then [] else (s.splitOn ",").map (fun t => if t == "D" then none else t.toNat?)

def parseOptNat (s : String) : Option Nat := if s == "D" || s == "" then none else s.toNat?

def fmtL (l : List Int) : String := if l.isEmpty then "-" else ",".intercalate (l.map toString)
def fmtB (b : Bool) : String := if b then "1" else "0"

def ubStr : UB → String
  | .overflow => "ub overflow" | .divzero => "ub divzero" | .oob => "ub oob"

def showM (r : M Int) : String :=
  match r with
  | .ok v => s!"ok {v}"
  | .error e => ubStr e

def showL (r : M (List Int)) : String :=
  match r with
  | .ok l => "ok " ++ fmtL l
  | .error e => ubStr e

def showS (r : M String) : String :=
  match r with
  | .ok s => s
  | .error e => ubStr e

def kv (tok : String) (key : String) : Option String :=
  if tok.startsWith (key ++ "=") then some (tok.drop (key.length + 1)).toString else none

def getKey (toks : List String) (k : String) : Option String := toks.findSome? (fun t => kv t k)

/-- tokens without `=` after the three header tokens -/
def plainToks (rest : List String) : List String := rest.filter (fun t => !(t.contains '='))

/-- wrap every value of an op line into the operation's C++ type, as the harness's
    `static_cast<index_type>` does -/
def wrapL (T : ITy) (l : List Int) : List Int := l.map T.wrap

end Drv
