"""C04 (submdspan aliases the selected elements) and C10 (a submdspan stays inside its source):
proof audit + correspondence of the `sub` op family + the property statements on the implementation."""
import json
from . import common as C
from . import subfam as S
from .mapfam import vals, val

def warm(prop):
    S.build_server('gcc20-ubsan')

def payload(c, **kw):
    d = dict(case=c.pub(), ops=c.ops); d.update(kw); return d

def case_from_replay(rp, insts):
    cs = rp['case']
    for inst in insts:
        if S.G.line_prefix(inst).split() == cs['line'].split()[:5]:
            c = S.SCase(inst, cs['extents'], cs.get('strides'), cs['slices'], 'replay'); c.ops = list(rp['ops']); c.sl2 = cs.get('second_level_slices')
            kv = dict(x.split('=') for x in cs['line'].split() if '=' in x); c.h = int(kv.get('h', 0)); c.id = int(kv.get('id', 0)); return c
    return None

def analyse_C04(cases, rep):
    kinds = {}
    for c in cases:
        same = True
        for op, xi, xm in zip(c.ops, c.impl, c.model):
            rep.cov['evaluations'] += 1
            if op == 'mds' and not c.adm: continue      # pointer arithmetic far outside the buffer: not comparable
            if xi != xm:
                same = False
                rep.broke(payload(c, correspondence='sub family, exact transcript (%s)' % op, adm=c.adm, impl=xi[:400], model=xm[:400])); break
        rep.cov['traces_validated_against_impl'] += 1
        if not c.adm: continue
        if c.sl2 is not None:      # a view of a view, reported relative to the root
            xi = c.out('ch')
            if not xi.startswith('off='):
                rep.violation(payload(c, kind='submdspan-of-a-submdspan-undefined-on-valid-slices', impl=xi)); continue
            d = dict(x.split('=') for x in xi.split(' ok ')[0].split()); got = vals('ok ' + xi.split(' ok ')[1]) if ' ok ' in xi else None
            fin, want = S.spec_chain(c)
            gext = [] if d['ext'] == '-' else [int(x) for x in d['ext'].split(',')]
            if gext != fin: rep.violation(payload(c, kind='result-extents-differ-from-slicing-rule (view of a view)', impl=gext, specified=fin)); continue
            if len(want) >= 2: rep.nontrivial(c.base())
            if got != want:
                rep.violation(payload(c, kind='view-element-is-not-the-selected-source-element (view of a view)', impl_addresses=(got or [])[:32], specified_addresses=want[:32])); continue
            continue
        info = S.parse_info(c.out('info'))
        if info is None:
            rep.violation(payload(c, kind='submdspan_mapping-undefined-on-valid-slices', impl=c.out('info'))); continue
        exts, dims = S.spec_sub(c)
        for k in c.inst[3]: kinds[k] = kinds.get(k, 0) + 1
        if info['ext'] != exts:
            rep.violation(payload(c, kind='result-extents-differ-from-slicing-rule', impl=info['ext'], specified=exts)); continue
        md_ = c.out('mds')
        if md_ is not None:
            d = dict(x.split('=') for x in md_.split()) if md_.startswith('h=') else None
            if d is None:
                rep.violation(payload(c, kind='submdspan-undefined-on-valid-slices', impl=md_)); continue
            want_h = c.h + info['off']; want_log = '%d,%d' % (-1 - c.h, info['off'])
            if int(d['h']) != want_h or d.get('n') != '1' or d.get('log') != want_log or int(d['acc']) != c.id or d.get('same') != '1':
                rep.violation(payload(c, kind='submdspan-handle/accessor-not-obtained-through-accessor.offset()-and-offset_policy', impl=md_,
                                      specified='h=%d acc=%d n=1 log=%s same=1' % (want_h, c.id, want_log))); continue
        a = c.out('alias')
        if a is None: continue
        got = vals(a)
        if got is None:
            rep.violation(payload(c, kind='element-address-undefined-on-valid-slices', impl=a)); continue
        want = S.spec_alias(c)
        if len(want) >= 2: rep.nontrivial(c.base())
        if got != want:
            j = next((q for q, (x, y) in enumerate(zip(got, want)) if x != y), min(len(got), len(want)))
            rep.violation(payload(c, kind='view-element-is-not-the-selected-source-element', first_differing_element_rowmajor=j,
                                  impl_addresses=got[:32], specified_addresses=want[:32])); continue
        if same and len(want) >= 2: rep.sample(dict(line=c.base(), result=c.out('info'), element_addresses=got[:12]))
    rep.notes['slice_kind_occurrences_admissible'] = kinds

def analyse_C10(cases, rep):
    n_end = 0
    for c in cases:
        if c.sl2 is not None:      # a view of a view: each level stays inside the one it was taken from, the whole inside the root
            xi, xm = c.out('ch'), c.out('ch', side='model')
            rep.cov['evaluations'] += 1; rep.cov['traces_validated_against_impl'] += 1
            if xi.split(' ok ')[0] != xm.split(' ok ')[0]: rep.broke(payload(c, correspondence='sub family: offsets / spans of a view of a view', adm=c.adm, impl=xi[:300], model=xm[:300]))
            if not c.adm or not xi.startswith('off='):
                if c.adm: rep.violation(payload(c, kind='submdspan-of-a-submdspan-undefined-on-valid-slices', impl=xi))
                continue
            d = dict(x.split('=') for x in xi.split(' ok ')[0].split()); rep.nontrivial(c.base())
            off, span, l1off, l1span, l2off = int(d['off']), int(d['span']), int(d['l1off']), int(d['l1span']), int(d['l2off']); sspan = S.src_span(c)
            fin = [] if d['ext'] == '-' else [int(x) for x in d['ext'].split(',')]; nonempty = all(x > 0 for x in fin)
            if l2off > l1span: rep.violation(payload(c, kind='offset-exceeds-source-required_span_size (second level of a view of a view)', offset=l2off, source_span=l1span)); continue
            if l1off > sspan or off > sspan: rep.violation(payload(c, kind='offset-exceeds-source-required_span_size', offset=max(l1off, off), source_span=sspan)); continue
            if nonempty and (l2off + span > l1span or off + span > sspan):
                rep.violation(payload(c, kind='view-reaches-beyond-source-span (view of a view)', offset=off, view_span=span, source_span=sspan, level2_offset=l2off, level1_span=l1span)); continue
            continue
        if c.kind == 'ushift': continue      # the decoy customization point shifts the offset on purpose: C04's matter (submdspan uses what it returns)
        xi, xm = c.out('info'), c.out('info', side='model')
        rep.cov['evaluations'] += 1; rep.cov['traces_validated_against_impl'] += 1
        fields = lambda s: ' '.join(t for t in s.split() if t.split('=')[0] in ('off', 'span', 'sspan', 'ext')) if s.startswith('off=') else s
        if fields(xi) != fields(xm):
            rep.broke(payload(c, correspondence='sub family: offset / required_span_size of view and source', adm=c.adm, impl=xi, model=xm))
        if not c.adm: continue
        info = S.parse_info(xi)
        if info is None:
            rep.violation(payload(c, kind='submdspan_mapping-undefined-on-valid-slices', impl=xi)); continue
        at_end = any((p[0] in 'rt' and int(p.split(':')[1]) == e) or (p[0] in 'sSQUZ' and int(p.split(':')[1]) == e) for p, e in zip(c.sl, c.ext))
        if at_end: n_end += 1
        rep.nontrivial(c.base())
        sspan = S.src_span(c)
        if info['sspan'] != sspan: continue        # a C05 matter; C10 is stated relative to the reported span
        if info['off'] > info['sspan']:
            rep.violation(payload(c, kind='offset-exceeds-source-required_span_size', offset=info['off'], source_span=info['sspan'])); continue
        nonempty = all(x > 0 for x in info['ext'])
        if nonempty and info['off'] + info['span'] > info['sspan']:
            rep.violation(payload(c, kind='view-reaches-beyond-source-span', offset=info['off'], view_span=info['span'], source_span=info['sspan'])); continue
        if at_end: rep.sample(dict(line=c.base(), result=xi), cap=6)
    rep.notes['cases_with_a_slice_starting_at_the_end_of_its_extent'] = n_end

ANALYSE = {'C04': analyse_C04, 'C10': analyse_C10}
RULES = {
 'C04': 'submdspan_mapping over {left,right,stride} x 8 index types x all tuples of {index, pair, full_extent, strided_slice} for rank 1-2 (rank 3: all tuples for int/unsigned char, a fixed 28-tuple subset otherwise) + tuples with std::tuple and integral_constant-valued slices and static source extents; small extents with all/sampled slice values, boundary extents; every element address of small results compared; non-trivial = admissible with >= 2 result elements',
 'C10': 'same op stream, biased to slices with begin == end == extent; compared: offset, view span, source span; non-trivial = admissible',
}

def check(prop, tier, seed, replay=None):
    rep = C.Report(prop, tier, seed)
    audit = C.proof_audit(prop)
    configs = ['gcc20-ubsan'] if tier == 'quick' else ['gcc20-ubsan', 'clang20-ubsan']
    rep.notes['configs'] = configs; rep.cov['rule'] = RULES[prop]
    streams = {}
    for cfg in configs:
        try:
            insts, exe, secs, cached = S.build_server(cfg)
        except C.BuildError as e:
            rep.broke(dict(correspondence='op server build (%s)' % cfg, why=str(e), log=e.log[-3000:])); continue
        rep.notes.setdefault('server_build_s', {})[cfg] = round(secs, 1)
        rep.notes['instantiations'] = len(insts)
        if replay:
            c = case_from_replay(replay, insts); cases = [c] if c else []
        else: cases = S.gen_cases(seed, tier, insts)
        n = S.run_cases(cases, exe)
        for c in cases: streams[c.stream] = streams.get(c.stream, 0) + 1
        rep.notes['op_lines_' + cfg] = n; rep.notes['admissible_cases_' + cfg] = sum(1 for c in cases if c.adm)
        ANALYSE[prop](cases, rep)
    rep.notes['streams'] = streams
    rep.assumptions = ['slice values are representable in the mapping\'s index_type (the code converts them with index_type(v))',
                       'the Lean model mirrors the C++; checked on the generated op lines only']
    return rep.finish(audit)
