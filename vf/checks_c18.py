"""C18: static information costs no storage; vocabulary types are trivially copyable."""
import itertools, random
from . import common as C
from .checks_c16 import cxx_ext

def universe(thorough):
    out = []
    for t in C.ITYPES:
        for r in range(0, 4 if thorough else 3):
            for bits in itertools.product([0, 1], repeat=r):
                pat = tuple((k + 2) * 2 if b else None for k, b in enumerate(bits))
                for lay, sp in (('left', None), ('right', None), ('stride', None), ('lpad', 'D'), ('rpad', 'D'), ('lpad', 4), ('rpad', 4), ('lpad', 3)):
                    out.append((lay, sp, t, pat))
    for t in ('u8', 'u16', 'u32', 'i8', 'i16'):
        H = C.hi(t)
        for pat in ((H,), (H, None), (None, H), (H, H)):
            for lay, sp in (('left', None), ('right', None), ('stride', None), ('lpad', 'D'), ('rpad', 4)):
                out.append((lay, sp, t, pat))
    return out

def pat_str(p): return ','.join('D' if x is None else str(x) for x in p) if p else '-'
def cxx_layout(lay, sp):
    if lay in ('left', 'right', 'stride'): return 'md::layout_%s' % lay
    return 'mdx::layout_%s_padded<%s>' % ('left' if lay == 'lpad' else 'right', 'md::dynamic_extent' if sp == 'D' else sp)

def sources(U, ntu=16):
    tus = [[] for _ in range(ntu)]
    for k, (lay, sp, t, pat) in enumerate(U):
        E = cxx_ext(t, pat); L = cxx_layout(lay, sp); M = '%s::mapping<%s>' % (L, E)
        tus[k % ntu].append('  out[%d] = c18Probe<%s, %s, %s>();' % (k, E, L, M))
    pre = '''#include "probe.hpp"
#include "viewsrv.hpp"
using namespace vh;
template <class E, class L, class M> std::string c18Probe() {
  using V1 = md::mdspan<int, E, L>; using V2 = md::mdspan<int, E, L, StAcc<int>>;
  std::string s = "ext=" + std::to_string(sizeof(E)) + "," + num(std::is_empty_v<E>) + " map=" + std::to_string(sizeof(M)) + "," + num(std::is_empty_v<M>);
  s += " mds=" + std::to_string(sizeof(V1)) + " mdst=" + std::to_string(sizeof(V2));
  s += " triv=" + num(std::is_trivially_copyable_v<E>) + num(std::is_trivially_copyable_v<M>) + num(std::is_trivially_copyable_v<V1>) + num(std::is_trivially_copyable_v<md::default_accessor<int>>);
  return s;
}
'''
    srcs = [('c18_tu%d.cpp' % i, pre + 'void c18_%d(std::vector<std::string>& out) {\n%s\n}\n' % (i, '\n'.join(b))) for i, b in enumerate(tus)]
    srcs.append(('c18_main.cpp', '#include <vector>\n#include <string>\n#include <cstdio>\n' + ''.join('void c18_%d(std::vector<std::string>&);\n' % i for i in range(ntu)) +
                 'int main() { std::vector<std::string> out(%d);\n' % len(U) + ''.join('  c18_%d(out);\n' % i for i in range(ntu)) + '  for (auto& s : out) puts(s.c_str());\n}\n'))
    return srcs

def kv(s): return dict(x.split('=') for x in s.split() if '=' in x)

def check(prop, tier, seed, replay=None):
    rep = C.Report(prop, tier, seed); audit = C.proof_audit(prop); thorough = tier == 'thorough'
    U = universe(thorough)
    if replay: U = [tuple(replay['type'][:3]) + (tuple(replay['type'][3]),)]
    rep.cov['rule'] = ('sizeof / is_empty_v / is_trivially_copyable_v of extents, mapping, mdspan (default and 4-byte stateful accessor) for 8 index types x all static/dynamic patterns of rank 0-2 (thorough 0-3) '
                       'x 8 layouts (left, right, stride, left/right_padded<dyn|4>, left_padded<3>); sizes compared in attribute builds, triviality in attribute and emulation builds; non-trivial = rank >= 1')
    mlines = ['c18 %s %s pat=%s%s' % (lay, t, pat_str(pat), (' sp=%s' % sp) if sp is not None else '') for lay, sp, t, pat in U]
    mout = C.driver(mlines)
    # every compiler x language mode in which the compiler offers [[no_unique_address]] must use it (sizes compared): g++ and clang++, C++17 and C++20
    configs = [('gcc20-ubsan', True), ('clang17-O2-ndebug', True), ('gcc17-O0-assert', True), ('gcc20-O2-ndebug-emul', False)] + ([('clang20-O0-assert', True), ('clang17-O0-ndebug-emul', False), ('gcc23-O0-assert', True)] if thorough else [])
    rep.notes['configs'] = [c for c, _ in configs]
    for cfg, attr in configs:
        try: exe, secs, cached = C.cxx_build('c18probe', sources(U), config=cfg)
        except C.BuildError as e:
            rep.broke(dict(correspondence='C18 probe build (%s)' % cfg, why=str(e), log=e.log[-3000:])); continue
        out = C.run([exe]).stdout.split('\n')
        for k, ((lay, sp, t, pat), xm) in enumerate(zip(U, mout)):
            xi = kv(out[k]); m = kv(xm); rep.cov['evaluations'] += 1; rep.cov['traces_validated_against_impl'] += 1
            pub = dict(type=[lay, sp, t, list(pat)], layout=cxx_layout(lay, sp), extents=cxx_ext(t, pat), config=cfg)
            z = C.ITYPES[t][0] // 8; d = sum(1 for p in pat if p is None); r = len(pat)
            if r >= 1: rep.nontrivial((lay, sp, t, pat))
            if xi.get('triv') != '1111':
                rep.violation(dict(kind='vocabulary-type-not-trivially-copyable', impl=out[k], **pub)); continue
            if not attr: continue
            # the statement of C18 on the implementation's numbers
            es, ee = xi['ext'].split(','); ms, me = xi['map'].split(','); es, ms = int(es), int(ms)
            if (ee == '1') != (d == 0) or (d > 0 and es != d * z):
                rep.violation(dict(kind='sizeof(extents)-is-not-rank_dynamic*sizeof(index_type)-/-not-empty-for-all-static', impl=out[k], **pub)); continue
            if lay in ('left', 'right') and (ms != es or me != ee):
                rep.violation(dict(kind='layout_left/right-mapping-adds-storage-to-its-extents', impl=out[k], **pub)); continue
            if lay == 'stride' and r > 0 and ms != d * z + r * z:
                rep.violation(dict(kind='layout_stride-mapping-is-not-extents-plus-rank-strides', impl=out[k], **pub)); continue
            if lay in ('lpad', 'rpad') and ms > -(-(max(1, d * z) + z) // z) * z:
                rep.violation(dict(kind='padded-mapping-adds-more-than-one-padded-stride', impl=out[k], **pub)); continue
            if d == 0 and (lay in ('left', 'right') or (lay == 'stride' and r == 0)) and int(xi['mds']) != 8:
                rep.violation(dict(kind='mdspan-with-all-static-extents-and-default-accessor-is-not-pointer-sized', impl=out[k], **pub)); continue
            core = lambda q: ' '.join('%s=%s' % (a, q[a]) for a in ('ext', 'map', 'mds', 'mdst'))
            if core(xi) != core(m):
                rep.broke(dict(correspondence='C18 size formulas (Model/Sizes.lean)', impl=out[k], model=xm, **pub)); continue
            if r == 2 and d == 1: rep.sample(dict(line=mlines[k], sizes=out[k]), cap=6)
    rep.assumptions = ['the size formulas are the ABI model (Itanium C++ ABI, LP64); they are fitted, not derived in Lean', 'sizes are compared only where [[no_unique_address]] is in effect']
    return rep.finish(audit)
