import Driver.Util
import MdspanVerif.Model.SubTypes
/-! type-level op families (probes): `subtype` (C09). -/
open Mdspan

namespace Drv

def parseSlK (s : String) : Option SlK :=
  match s.splitOn ":" with
  | ["i"] => some .idx
  | ["f"] => some .full
  | ["p", b, e] => some (.pair (parseOptNat b) (parseOptNat e))
  | ["s", x, st] => some (.strided (parseOptNat x) (parseOptNat st))
  | _ => none

def fmtPat (p : List (Option Nat)) : String :=
  if p.isEmpty then "-" else ",".intercalate (p.map (fun x => match x with | none => "D" | some v => toString v))

def layoutKStr : LayoutK → String | .left => "left" | .right => "right" | .stride => "stride"

def subtypeLine (lay : String) (rest : List String) : String :=
  let spat := parsePat ((getKey rest "spat").getD "-")
  let ks := (((getKey rest "k").getD "").splitOn ";").mapM parseSlK
  let src : Option LayoutK := match lay with
    | "left" => some .left | "right" => some .right | "stride" => some .stride | _ => none
  match ks, src with
  | some ks, some src =>
    let res := Impl.subStatic spat ks
    s!"rank={res.length} layout={layoutKStr (Impl.subLayout src ks)} pat={fmtPat res}"
  | _, _ => "bad-op"

end Drv
