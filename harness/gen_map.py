"""Generates the mapping op server: instantiation matrix -> translation units."""
from vf.common import ITYPES

KINDS = {'left': 'KLeft', 'right': 'KRight', 'stride': 'KStride', 'lpad': 'KLpad', 'rpad': 'KRpad', 'ulog': 'KUser', 'urev': 'KRev', 'ubc': 'KBc', 'ushift': 'KShift'}

def pat_str(pat): return ','.join('D' if p is None else str(p) for p in pat) if pat else '-'
def cxx_extents(t, pat):
    return 'md::extents<%s%s>' % (ITYPES[t][2], ''.join(', %s' % ('md::dynamic_extent' if p is None else str(p)) for p in pat))

def instances(cxx14=False):
    """list of (kind, T, pat(tuple of None|int), sp(None|'D'|int))"""
    out = []
    def add(kind, t, pat, sp=None):
        if cxx14 and kind in ('lpad', 'rpad'): return
        out.append((kind, t, tuple(pat), sp))
    for t in ITYPES:
        for r in range(0, 5):
            pat = [None] * r
            for k in ('left', 'right', 'stride'): add(k, t, pat)
            add('lpad', t, pat, 'D'); add('rpad', t, pat, 'D')
    for t in ('i32', 'u8', 'i16', 'u64'):
        for r in (1, 2, 3):
            for sp in (2, 3, 4):
                add('lpad', t, [None] * r, sp); add('rpad', t, [None] * r, sp)
    spats = [(3,), (3, None), (None, 4), (2, 4), (0, None), (2, None, 3), (None, 3, None), (4, 2, 3), (5, 3), (3, 5), (6, None, 4),
             (0,), (4, 0), (None, 0), (0, 3), (2, None, 0), (None, 0, 2)]      # static zero extents in every position relative to the dynamic ones
    for t in ('i32', 'u16', 'i64'):
        for pat in spats:
            for k in ('left', 'right', 'stride'): add(k, t, pat)
            add('lpad', t, pat, 'D'); add('rpad', t, pat, 'D')
            add('lpad', t, pat, 4); add('rpad', t, pat, 4)
    # large static extents (default construction accumulates the row-major product)
    for t, pat in (('i64', (4, 65536, 32768)), ('u64', (4, 65536, 32768)), ('i32', (4, 1024, 512)), ('u64', (3, None, 100000)), ('i16', (5, 50, 100))):
        for k in ('left', 'right', 'stride'): add(k, t, pat)
        add('lpad', t, pat, 4); add('rpad', t, pat, 'D')
    for t in ('i32', 'u64'):
        for r in (5, 6):
            pat = [None] * r
            for k in ('left', 'right', 'stride'): add(k, t, pat)
            add('lpad', t, pat, 'D'); add('rpad', t, pat, 'D')
    return out

def key(inst):
    kind, t, pat, sp = inst
    k = 'map:%s:%s:%s' % (kind, t, pat_str(pat))
    if sp is not None: k += ':%s' % sp
    return k

def line_prefix(inst):
    kind, t, pat, sp = inst
    s = 'map %s %s pat=%s' % (kind, t, pat_str(pat))
    if sp is not None: s += ' sp=%s' % sp
    return s

def sources(insts, ntu=16):
    tus = [[] for _ in range(ntu)]
    for n, inst in enumerate(insts):
        kind, t, pat, sp = inst
        spv = 'md::dynamic_extent' if sp in (None, 'D') else str(sp)
        tus[n % ntu].append('  regMap<%s, %s, %s>("%s");' % (KINDS[kind], cxx_extents(t, pat), spv, key(inst)))
    srcs = []
    for i, body in enumerate(tus):
        srcs.append(('map_tu%d.cpp' % i, '#include "mapsrv.hpp"\nusing namespace vh;\nvoid reg_map_%d() {\n%s\n}\n' % (i, '\n'.join(body))))
    main = '#include "vh.hpp"\n' + ''.join('void reg_map_%d();\n' % i for i in range(ntu)) + \
           'int main() {\n' + ''.join('  reg_map_%d();\n' % i for i in range(ntu)) + '  return vh::serve();\n}\n'
    srcs.append(('map_main.cpp', main))
    return srcs

def lite(insts):
    """reduced matrix for the configuration sweep of C15"""
    return [i for i in insts if i[1] in ('i32', 'u8', 'i64') and len(i[2]) <= 3 and i[3] in (None, 'D', 4)]
