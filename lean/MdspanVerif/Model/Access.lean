import MdspanVerif.Model.LayoutI
import MdspanVerif.Model.View
/-!
# Element access of an mdspan at the machine level

What `operator[]` / `operator()` do in every spelling (index pack, `std::array`, `std::span`, class-type indices, the rank-1
bracket form): every index argument of C++ type `S` is converted to `index_type` `T`
(`static_cast<index_type>(std::move(idx))`, or the implicit conversion of `indices[Idxs]`), the mapping is called with the
converted indices in order, and the offset is handed to `accessor.access(data_handle(), ·)`.  The driver's `at` op
(`Driver/View.lean`) evaluates exactly `accessOffset`; the theorems about it are in `Props/C03.lean`.
-/
namespace Mdspan

/-- the ways of passing the indices -/
inductive AccessForm | pack | array | span | classType | bracketRank1
deriving DecidableEq, Repr

/-- conversion of one index argument of C++ type `S` to `index_type` `T` -/
def convIdx (T S : ITy) (v : Int) : Int := T.wrap (S.wrap v)

/-- what the mapping receives, whatever the spelling: the converted indices, in order -/
def mappingArgs (T S : ITy) (_ : AccessForm) (args : List Int) : List Int := args.map (convIdx T S)

/-- the offset handed to `accessor.access(data_handle, ·)` -/
def accessOffset (T S : ITy) (f : AccessForm) (m : LayoutI) (args : List Int) : M Int :=
  m.offM T (mappingArgs T S f args)

/-- the element address with the default accessor (`p[i]`), as an offset from the buffer base -/
def accessAddr (T S : ITy) (f : AccessForm) (v : MdsView Int LayoutI Int) (args : List Int) : M Int := do
  let o ← accessOffset T S f v.m args
  pure (v.h + o)

end Mdspan
