import MdspanVerif.Model.Layout
/-!
# Pure mirrors of the converting constructors and of `operator==` / `operator!=`
# of the five layout mappings (property C08)

Values are unbounded `Nat`, so the `static_cast<common_t>` / `static_cast<index_type>` of the C++
are identities here (their machine behaviour belongs to C14).  A mapping *type* is identified by
its kind and its rank (= the length of the extents list); the index type and the static/dynamic
pattern of the extents do not show in the pure model, so "convert to another index type or
pattern" is the same-kind conversion below.

Sources mirrored:
* `layout_left.hpp`  79-170 (ctors), 221-240 (`==`, `!=`)
* `layout_right.hpp` 82-171 (ctors), 219-238 (`==`, `!=`)
* `layout_stride.hpp` 158-171 (`_eq_impl`, `_not_eq_impl`), 185-189 (`fill_strides`),
  219-222 (`__OFFSET`), 351-396 (ctor from any strided mapping), 482-548 (`==`, `!=`)
* `layout_padded.hpp` 118-127 (`init_padding(other, idx)`), 248-323 / 578-652 (ctors),
  402-411 / 731-740 (`stride(r)`), 424-460 / 754-790 (`==`, `!=`)
* `layout_padded_fwd.hpp` 36-54 (`padded_stride_idx`, `extent_to_pad_idx`), 103-131 (checks)
-/
namespace Mdspan

/-- the five mapping templates -/
inductive LKind
  | left | right | stride | lpad | rpad
deriving DecidableEq, Repr

deriving instance DecidableEq for Layout

def Layout.kind : Layout → LKind
  | .left _ => .left
  | .right _ => .right
  | .stride _ _ => .stride
  | .lpad _ _ => .lpad
  | .rpad _ _ => .rpad

/-- `Extents::rank()` -/
def Layout.rank (L : Layout) : Nat := L.extents.length

/-- well-formed value: a `layout_stride` mapping stores exactly `rank` strides -/
def Layout.WF : Layout → Prop
  | .stride es ss => ss.length = es.length
  | _ => True

/-! ## the `stride(r)` member functions -/

/-- `value = v; for k in l: value *= k` -/
def mulLoop (v : Nat) (l : List Nat) : Nat := l.foldl (· * ·) v

/-- `layout_left_padded::mapping::stride(r)`:
    `if (r == 0) return 1; value = padded_stride; for (k = 1; k < r; k++) value *= extent(k);` -/
def lpadStride (ps : Nat) (es : List Nat) (r : Nat) : Nat :=
  if r = 0 then 1 else mulLoop ps ((es.drop 1).take (r - 1))

/-- `layout_right_padded::mapping::stride(r)`:
    `if (r == rank-1) return 1; value = padded_stride; for (k = rank-2; k > r; k--) value *= extent(k);` -/
def rpadStride (ps : Nat) (es : List Nat) (r : Nat) : Nat :=
  if r + 1 = es.length then 1 else mulLoop ps ((es.dropLast).drop (r + 1)).reverse

/-- `m.stride(r)` for each of the five mappings (`leftStride` / `rightStride` are in `Layout.lean`;
    `layout_stride` reads its array) -/
def Layout.strideAt : Layout → Nat → Nat
  | .left es, r => leftStride es r
  | .right es, r => rightStride es r
  | .stride _ ss, r => ss.getD r 0
  | .lpad es ps, r => lpadStride ps es r
  | .rpad es ps, r => rpadStride ps es r

/-- `layout_stride::fill_strides(map)`: `{ map.stride(Idxs)... }` for `Idxs = 0 .. rank-1` -/
def Layout.strideList (L : Layout) : List Nat := (List.range L.rank).map L.strideAt

/-! ## converting constructors -/

/-- `padded_stride_idx` of `layout_padded_constants`: 1 for left_padded, `rank - 2` for right_padded
    (only meaningful for rank > 1; `Nat` subtraction truncates where `size_t` wraps, and the value is
    not used for rank ≤ 1) -/
def lpadIdx : Nat := 1
def rpadIdx (rank : Nat) : Nat := rank - 2

/-- `padded_extent::init_padding(other_mapping, integral_constant<padded_stride_idx>)`:
    `if constexpr (rank > 1) return {other.stride(idx)}; else return {};`
    For rank ≤ 1 the member is a `maybe_static_array<…, 0>` whose `value(0)` is the static 0.
    `s` is `other.stride(idx)`; it is not evaluated for rank ≤ 1 (here: not used). -/
def initPad (rank : Nat) (s : Nat) : Nat := if rank > 1 then s else 0

/-- `padded_extent::init_padding(exts, pv)`, the two-argument form used by the rank ≤ 1
    left_padded ↔ right_padded constructors:
    `if constexpr (rank > 1) return {find_next_multiple(pv, exts.extent(idx))}; else return {};` -/
def initPad2 (rank : Nat) (pv e : Nat) : Nat := if rank > 1 then findNextMultiple pv e else 0

/-- The converting constructor `Dst::mapping<…>(src)`, `none` where the destination mapping has no
    constructor taking that source mapping type.

    * same kind: extents copied (padded: also `stride(padded_stride_idx)` for rank > 1);
    * `layout_left ↔ layout_right`: constrained by `extents_type::rank() <= 1`;
    * `left_padded → layout_left`, `right_padded → layout_right`: extents copied, the check
      `check_padded_layout_converting_constructor_preconditions` is `ConvPre` below;
    * `layout_stride → left / right`: extents copied (the debug walk is C20);
    * anything `→ layout_stride`: extents and `stride(r)` for every `r`;
    * `layout_left → left_padded`, `layout_stride → left_padded`, `left_padded → left_padded`:
      padded stride `= other.stride(1)` for rank > 1 (right: `other.stride(rank-2)`);
    * `right_padded → left_padded` and back: constrained by rank ≤ 1, padded stride from the
      two-argument `init_padding`, extent argument `other.extents().extent(extent_to_pad_idx)`
      (on rank-0 extents `extent(_)` is `T()`, i.e. 0). -/
def convert (src : Layout) (dst : LKind) : Option Layout :=
  match dst, src with
  -- layout_left::mapping(...)
  | .left, .left es => some (.left es)
  | .left, .right es => if es.length ≤ 1 then some (.left es) else none
  | .left, .lpad es _ => some (.left es)
  | .left, .stride es _ => some (.left es)
  | .left, .rpad _ _ => none
  -- layout_right::mapping(...)
  | .right, .right es => some (.right es)
  | .right, .left es => if es.length ≤ 1 then some (.right es) else none
  | .right, .rpad es _ => some (.right es)
  | .right, .stride es _ => some (.right es)
  | .right, .lpad _ _ => none
  -- layout_stride::mapping(StridedLayoutMapping const&)
  | .stride, src => some (.stride src.extents src.strideList)
  -- layout_left_padded::mapping(...)
  | .lpad, .left es => some (.lpad es (initPad es.length ((Layout.left es).strideAt lpadIdx)))
  | .lpad, .stride es ss => some (.lpad es (initPad es.length ((Layout.stride es ss).strideAt lpadIdx)))
  | .lpad, .lpad es ps => some (.lpad es (initPad es.length ((Layout.lpad es ps).strideAt lpadIdx)))
  | .lpad, .rpad es _ =>
      if es.length ≤ 1 then some (.lpad es (initPad2 es.length (es.getD 0 0) (es.getD 0 0))) else none
  | .lpad, .right _ => none
  -- layout_right_padded::mapping(...)
  | .rpad, .right es => some (.rpad es (initPad es.length ((Layout.right es).strideAt (rpadIdx es.length))))
  | .rpad, .stride es ss =>
      some (.rpad es (initPad es.length ((Layout.stride es ss).strideAt (rpadIdx es.length))))
  | .rpad, .rpad es ps =>
      some (.rpad es (initPad es.length ((Layout.rpad es ps).strideAt (rpadIdx es.length))))
  | .rpad, .lpad es _ =>
      if es.length ≤ 1 then
        some (.rpad es (initPad2 es.length (es.getD (es.length - 1) 0) (es.getD (es.length - 1) 0)))
      else none
  | .rpad, .left _ => none

/-- The documented precondition of each converting constructor, as far as it concerns the mapping
    function (the "`required_span_size()` is representable" parts belong to C14, the `static_extent`
    / `padding_value` Mandates to the type level, see `convertS`).

    * `layout_stride → layout_left`: "for all r, `other.stride(r)` equals
      `extents().fwd-prod-of-extents(r)`"; `→ layout_right`: the reverse products;
    * `layout_stride → left_padded` (P2642): `stride(0) = 1`, `stride(r)` for r ≥ 2 is
      `stride(1) * extent(1) * … * extent(r-1)` — i.e. the strides are `lpadStrides (stride(1))`;
    * `left_padded → layout_left`: `check_padded_layout_converting_constructor_preconditions`:
      for rank > 1, `other.stride(padded_stride_idx) == other.extents().extent(extent_to_pad_idx)`;
    * the rest: nothing. -/
def ConvPre (src : Layout) (dst : LKind) : Prop :=
  match dst, src with
  | .left, .stride es ss => ss = leftStrides es
  | .right, .stride es ss => ss = rightStrides es
  | .left, .lpad es ps => es.length > 1 → lpadStride ps es lpadIdx = es.getD 0 0
  | .right, .rpad es ps => es.length > 1 → rpadStride ps es (rpadIdx es.length) = es.getD (es.length - 1) 0
  | .lpad, .stride es ss => ss = lpadStrides (ss.getD lpadIdx 0) es
  | .rpad, .stride es ss => ss = rpadStrides (ss.getD (rpadIdx es.length) 0) es
  | _, _ => True

instance (src : Layout) (dst : LKind) : Decidable (ConvPre src dst) := by
  unfold ConvPre; split <;> infer_instance

/-! ### destination types with a compile-time padded stride

When both `padding_value` and the extent to pad of the destination are static, the padded stride is
a static member of `maybe_static_array`; its all-static constructor discards the run-time argument
(`constexpr maybe_static_array(Vals...) : m_dyn_vals{} {}`), so the value
`other.stride(padded_stride_idx)` computed by `init_padding` is ignored. -/

/-- `init_padding(other, idx)` into a `maybe_static_array` whose value is static (`some v`) or
    dynamic (`none`) -/
def initPadS (rank : Nat) (sps : Option Nat) (s : Nat) : Nat :=
  if rank > 1 then sps.getD s else 0

/-- `layout_left → left_padded`, `layout_right → right_padded` with static padded stride `sps` -/
def convertS (src : Layout) (dst : LKind) (sps : Option Nat) : Option Layout :=
  match dst, src with
  | .lpad, .left es => some (.lpad es (initPadS es.length sps ((Layout.left es).strideAt lpadIdx)))
  | .rpad, .right es =>
      some (.rpad es (initPadS es.length sps ((Layout.right es).strideAt (rpadIdx es.length))))
  | _, _ => none

/-- the `static_assert` in `left_padded::mapping(const layout_left::mapping<OtherExtents>&)` as
    written (layout_padded.hpp 259-260, 589-590): `sps` = `static_padding_stride`, `ose` =
    `OtherExtents::static_extent(extent_to_pad_idx)`, `none` = `dynamic_extent` -/
def ctorStaticAssert (otherRank : Nat) (sps ose : Option Nat) : Bool :=
  decide (otherRank > 1) || sps.isSome || ose.isSome || (sps == ose)

/-- the Mandates of P2642 for the same constructor: "if `OtherExtents::rank() > 1` then
    `static-padding-stride == dynamic_extent || OtherExtents::static_extent(0) == dynamic_extent ||
    static-padding-stride == OtherExtents::static_extent(0)`" -/
def ctorMandate (otherRank : Nat) (sps ose : Option Nat) : Bool :=
  !decide (otherRank > 1) || sps.isNone || ose.isNone || (sps == ose)

/-! ## equality operators -/

/-- `extents::operator==`: `false` on a rank mismatch, otherwise the loop with early `return false` -/
def extEq : List Nat → List Nat → Bool
  | [], [] => true
  | l :: ls, r :: rs => if r ≠ l then false else extEq ls rs
  | _, _ => false

/-- `extents::operator!=` (pre-C++20): `!(lhs == rhs)` -/
def extNe (ls rs : List Nat) : Bool := !extEq ls rs

/-- `_MDSPAN_FOLD_AND(a(Idxs) == b(Idxs))` over the positions of two rank-long lists -/
def allEq : List Nat → List Nat → Bool
  | a :: as, b :: bs => (a == b) && allEq as bs
  | _, _ => true

/-- `_MDSPAN_FOLD_OR(a(Idxs) != b(Idxs))` -/
def anyNe : List Nat → List Nat → Bool
  | a :: as, b :: bs => (a != b) || anyNe as bs
  | _, _ => false

/-- `layout_left` / `layout_right` `operator==`: `lhs.extents() == rhs.extents()` -/
def eqLeft (es fs : List Nat) : Bool := extEq es fs
def eqRight (es fs : List Nat) : Bool := extEq es fs
/-- their pre-C++20 `operator!=`: `lhs.extents() != rhs.extents()` -/
def neLeft (es fs : List Nat) : Bool := extNe es fs
def neRight (es fs : List Nat) : Bool := extNe es fs

/-- `layout_stride::_eq_impl`: all strides equal `&&` all extents equal -/
def eqStrideStride (es ss fs ts : List Nat) : Bool := allEq ss ts && allEq es fs
/-- `layout_stride::_not_eq_impl`: some stride differs `||` some extent differs -/
def neStrideStride (es ss fs ts : List Nat) : Bool := anyNe ss ts || anyNe es fs

/-- `__OFFSET(y)`: `y(0, …, 0)` -/
def Layout.offsetOrigin (y : Layout) : Nat := y.offset (List.replicate y.rank 0)

/-- the loop `strides_match = strides_match && (x.stride(r) == y.stride(r))` -/
def stridesMatch (ss : List Nat) (y : Layout) : Bool := allEq ss y.strideList

/-- `operator==(const layout_stride::mapping& x, const StridedLayoutMapping& y)`:
    `(x.extents() == y.extents()) && (__OFFSET(y) == 0) && strides_match` -/
def eqStrideOther (es ss : List Nat) (y : Layout) : Bool :=
  extEq es y.extents && (y.offsetOrigin == 0) && stridesMatch ss y
/-- its pre-C++20 `operator!=`: `not (x == y)` -/
def neStrideOther (es ss : List Nat) (y : Layout) : Bool := !eqStrideOther es ss y

/-- `left_padded == left_padded`:
    `strides_equal = true; if constexpr (rank > 1) strides_equal = left.stride(1) == right.stride(1);`
    `return (left.extents() == right.extents()) && strides_equal;` -/
def eqLpad (es : List Nat) (ps : Nat) (fs : List Nat) (qs : Nat) : Bool :=
  let stridesEqual := if es.length > 1 then lpadStride ps es lpadIdx == lpadStride qs fs lpadIdx else true
  extEq es fs && stridesEqual
/-- `right_padded == right_padded`, `padded_stride_idx = rank - 2` -/
def eqRpad (es : List Nat) (ps : Nat) (fs : List Nat) (qs : Nat) : Bool :=
  let stridesEqual :=
    if es.length > 1 then rpadStride ps es (rpadIdx es.length) == rpadStride qs fs (rpadIdx es.length)
    else true
  extEq es fs && stridesEqual
/-- pre-C++20 `operator!=` of the padded mappings: `!(left == right)` -/
def neLpad (es : List Nat) (ps : Nat) (fs : List Nat) (qs : Nat) : Bool := !eqLpad es ps fs qs
def neRpad (es : List Nat) (ps : Nat) (fs : List Nat) (qs : Nat) : Bool := !eqRpad es ps fs qs

/-- `a == b` for the pairs of mapping types with a directly declared `operator==`; every declaration
    is constrained by equal ranks.  `layout_stride == layout_stride` resolves to the more specialised
    overload (`_eq_impl`); `eqStrideOther_stride` (C08.lean) shows the generic one agrees.
    `y == x` with `x` a `layout_stride` and `y` another mapping is the reversed (C++20 rewritten)
    candidate of `x == y`; there is no `left == right`, `left == left_padded`, … -/
def eqMap : Layout → Layout → Option Bool
  | .left es, .left fs => if es.length = fs.length then some (eqLeft es fs) else none
  | .right es, .right fs => if es.length = fs.length then some (eqRight es fs) else none
  | .stride es ss, .stride fs ts =>
      if es.length = fs.length then some (eqStrideStride es ss fs ts) else none
  | .lpad es ps, .lpad fs qs => if es.length = fs.length then some (eqLpad es ps fs qs) else none
  | .rpad es ps, .rpad fs qs => if es.length = fs.length then some (eqRpad es ps fs qs) else none
  | .stride es ss, y => if es.length = y.rank then some (eqStrideOther es ss y) else none
  | y, .stride es ss => if es.length = y.rank then some (eqStrideOther es ss y) else none
  | _, _ => none

/-- `a != b` along the hand-written pre-C++20 code paths (`extents != extents`, `_not_eq_impl`,
    `not (x == y)`, `!(left == right)`); the reversed `y != x` is `!(x == y)` -/
def neMap : Layout → Layout → Option Bool
  | .left es, .left fs => if es.length = fs.length then some (neLeft es fs) else none
  | .right es, .right fs => if es.length = fs.length then some (neRight es fs) else none
  | .stride es ss, .stride fs ts =>
      if es.length = fs.length then some (neStrideStride es ss fs ts) else none
  | .lpad es ps, .lpad fs qs => if es.length = fs.length then some (neLpad es ps fs qs) else none
  | .rpad es ps, .rpad fs qs => if es.length = fs.length then some (neRpad es ps fs qs) else none
  | .stride es ss, y => if es.length = y.rank then some (neStrideOther es ss y) else none
  | y, .stride es ss => if es.length = y.rank then some (neStrideOther es ss y) else none
  | _, _ => none

end Mdspan
