#!/usr/bin/env python3
"""Regenerates MANIFEST.json from the table below (single source of truth for what is claimed)."""
import json, os, sys
HERE = os.path.dirname(os.path.dirname(os.path.abspath(__file__)))
props = [json.loads(l) for l in open(os.path.join(HERE, 'properties.jsonl'))]
TB = ('Trusted: Lean 4.33.0 kernel; axioms propext, Classical.choice, Quot.sound only (re-audited with #print axioms on every run; no sorry/admit/native_decide/bv_decide); '
      'the hand-written Lean model (lean/MdspanVerif/Model) as a reading of the C++, tied to /repo on every run by the correspondence check (differential execution of the '
      'model driver and of op servers compiled from /repo/include on generated op lines, so its strength is that of the generators and the instantiation matrix, reported in the evidence); '
      'g++ 12.2 / clang++ 14 and UBSan trap builds as observers; python harness. ')
CLAIMS = {
 'C01': dict(ref='7/C01', partial=None,
   text='Theorems C01_inj / C01_range: for all five layouts, every rank, all extents, all valid stride tuples and paddings, offsets are injective on the index space and below required_span_size() (unbounded induction, Lean kernel). Tied to the code by fitting the strides from the implementation\'s own unit-vector offsets and checking them, and all other offsets, against the proved family (validStridesB, dot) plus a direct range/collision oracle on every evaluated case.',
   tech='Lean 4 proof (induction over rank, permutation lift of the stride precondition) + fitted-family correspondence against UBSan op servers',
   note='Modelled rather than verified: the C++ integer semantics (Model/Int.lean), the template instantiation matrix (8 index types x patterns listed in harness/gen_map.py). Configurations beyond g++ c++20 are built only in the thorough tier and in C15.'),
 'C02': dict(ref='7/C02', partial=None,
   text='Theorems C02_right/left/stride/lpad/rpad, stride/strides lemmas, findNextMultiple_spec and C02_default_stride (the default-construction loop yields the row-major strides): the model\'s offset is exactly sum i_r*S_r with the specified S_r, padded stride = least multiple. Tied to the code by exact transcript equality of operator(), stride(r), strides() with the machine-layer model on every generated line (including inadmissible ones, where unsigned wrap-around and the UBSan trap point are predicted) and by the specified formula evaluated on the implementation\'s outputs.',
   tech='Lean 4 proof + exact-transcript correspondence (machine-integer model vs UBSan op server)',
   note='As C01.'),
 'C05': dict(ref='7/C05', partial=None,
   text='Theorems C05_*: required_span_size is 0 iff an extent is 0, otherwise max offset + 1 (left/right/stride, early-return loop included), padded bounds. Tied by exact comparison of required_span_size() with the machine-layer model and by the max-offset oracle over complete small index spaces.',
   tech='Lean 4 proof + exact-transcript correspondence', note='As C01.'),
 'C07': dict(ref='7/C07', partial=None,
   text='Theorems C07_stride (is_exhaustive <-> covers, both directions, any valid strides), C07_left/right, C07_lpad, C07_strided, C07_unique. Tied by comparing all six flags with the model and by evaluating image / injectivity / affinity of the implementation over complete small index spaces; every branch of layout_stride::is_exhaustive is counted in the evidence.',
   tech='Lean 4 proof + exact-transcript correspondence + coverage oracle', note='As C01. mdspan/mdarray forwarders are compared in the view op family (C13).'),
 'C04': dict(ref='7/C04', partial=None,
   text='Theorems C04_alias, sub_alias_dot, compose_inB, presLeft_strides/presRight_strides, View.subs_addr: for every rank, every mix of index/range/full/strided slices and chains of views of any depth, element js of the view is the source element first_k + j*step_k, and that index lies inside the source; keeping layout_left/right is sound. Tied by exact transcripts of submdspan_mapping (offset, extents, layout kind, strides, and the address of every element of small results) against the machine-layer model over all slice-kind tuples up to rank 3, and by the slicing rule evaluated on the implementation\'s outputs.',
   tech='Lean 4 proof + exact-transcript correspondence of submdspan_mapping incl. per-element addresses',
   note='Slice values are assumed representable in index_type. The mdspan-level submdspan (accessor offset()/offset_policy) is covered by the view op family (C03/C11) once built; user layouts providing submdspan_mapping are not instantiated yet.'),
 'C10': dict(ref='7/C10', partial=None,
   text='Theorem C10_offset_le (and compose_inB/C04_alias for the fit of non-empty views): for every valid slice tuple, including empty slices that start at the end of an extent, the reported offset is at most required_span_size() of the source. Tied by comparing offset, view span and source span of every generated submdspan_mapping call with the model (generator biased to begin == end == extent) and by the inequality itself on the implementation\'s outputs. The pinned tree violated this (fixed: 007cdd2).',
   tech='Lean 4 proof + exact-transcript correspondence + inequality oracle', note='As C04.'),
 'C14': dict(ref='7/C14', partial='integer arithmetic, internal array indexing and division only; lifetime/aliasing UB is not modelled (UBSan and constant evaluation witness it on the inputs run).',
   text='Refinement theorems C14_right_offset, C14_left_offset, C14_span_lr, C14_span_stride, findNextMultipleM_refines: for all eight index types, whenever the span (zeros counted as one) is representable the machine-integer mirror returns ok of the mathematical value - no overflow, no division by zero. Tied three ways: every op line the Lean predicate admB marks admissible must run trap-free under UBSan-trap op servers (mappings and submdspan_mapping), signed beyond-boundary lines must trap exactly where the machine layer predicts, and a sample of admissible cases is evaluated as constexpr variables and compared with the run-time values.',
   tech='Lean 4 refinement proofs (machine integers -> naturals) + UBSan-trap and constexpr correspondence',
   note='Refinement theorems exist for left/right offsets, left/right/stride spans and find_next_multiple; padded offsets, stride(r) loops, is_exhaustive and submdspan arithmetic are tied by the transcript only (model agrees with the code on every admissible and inadmissible line) - extending the theorems is ongoing.'),
 'C09': dict(ref='7/C09', partial='the compiler\'s template instantiation (decltype, is_convertible) is trusted; the model speaks about type descriptors.',
   text='Theorems C09_static, C09_rank, C09_layout (with C09_preserveLeft/Right): for source patterns and slice-type lists of every length the metafunctions (StaticExtentFromRange/StridedRange, the fold expressions of preserve_layout_left/right_mapping) compute exactly the slicing rule: rank = number of non-index slices, static extents and values, layout kept iff full* (full|pair)? index* (mirror image for layout_right). Tied by decltype probes of submdspan_mapping, submdspan_extents and submdspan (element type, offset_policy, index type carried over) over all tuples of 14 slice types for rank 1-2, 500 sampled (thorough: all) rank-3 tuples and sampled rank 4-6, compared with the model and with the rule.',
   tech='Lean 4 proof (Impl = Spec by induction on the slice list) + compile-time type probes',
   note='Probes use index type int plus four others on a subset; quick tier compiles with g++ -std=c++23 only, thorough adds clang and C++17/20.'),
 'C06': dict(ref='7/C06', partial=None,
   text='Theorems dynSlot_lt, C06_fromDyn, C06_fromAll, C06_ctorM_all/dyn, C06_conv(M), C06_rank, C06_static, C06_eq_iff: for every pattern of every rank (all 2^rank patterns), a dynamic position always finds its slot inside the value array, extent(r) is the static extent or the value supplied for that position on every construction path, conversion gathers the source extents, and == holds exactly for equal rank and equal extents across index types (comparison in the common type is exact on representable values). Tied by exact transcripts of 6 construction paths x all patterns (rank<=3) x 8 index types x 3 source element types, and 420 ordered type pairs for conversion and comparison (==, != and the reversed ==).',
   tech='Lean 4 proof (induction on the pattern) + exact-transcript correspondence',
   note='rank-4 patterns only for two index types; std::span paths need C++20.'),
 'C20': dict(ref='7/C20', partial=None,
   text='Theorems C20_left, C20_right, C20_canonical_passes: the stride walk aborts exactly when the stride list differs from the canonical strides of the target layout, for every rank; canonical strides never abort. Tied by running each conversion in a child process of an assertion-enabled build and of an NDEBUG build (24 index-type pairs x rank 0-4; canonical, one-off, permuted, other-layout stride tuples) and comparing the exit status with the machine-layer walk (walkLeftM/walkRightM, comparison in the common type) and with the statement.',
   tech='Lean 4 proof + child-process correspondence (SIGABRT observed)', note='CUDA/HIP configurations do not exist here.'),
 'C08': dict(ref='7/C08', partial=None,
   text='Theorems C08_conv_extents, C08_conv_offset (for ALL index lists of the right length), C08_conv_strides, C08_eq_sound, C08_eq_refl, C08_roundtrip (every pair of kinds, every rank; the return conversion\'s precondition is proved, not assumed), C08_ne_not_eq (all 25 pairs), C08_left/right_eq_iff about a pure mirror of every converting constructor and operator==/!= (incl. _eq_impl/_not_eq_impl and the generic strided comparison). Tied by converting between 9 layouts x 6 index-type pairs x rank 0-3 on the real headers wherever the Lean predicate ConvPre holds and comparing extents, strides and every offset of source and target with the model; == / != for every pair with a direct operator==.',
   tech='Lean 4 proof + exact-transcript correspondence of conversions and comparisons',
   note='The conversion family uses all-dynamic extents; conversions involving static extents / static padded strides are covered at the type level only (convertS, ctorMandate in Convert.lean; the inverted Mandates check found there was fixed: see known_findings.json).'),
 'C03': dict(ref='7/C03', partial='references are modelled as addresses (offset from the buffer base); C++ aliasing/lifetime rules are outside the model. Proxy-reference accessors and non-pointer data handles are not instantiated.',
   text='Every access spelling reduces to accessor.access(data_handle, mapping(static_cast<index_type>(idx)...)) in the view model (MdsView/CView, C11_make_abs) and by C01_range the designated address lies in [data_handle, data_handle + required_span_size). Tied by op sequences on mdspan<int, E, L, A> (7 layouts x 4 index types x 9 patterns x {default, logging stateful accessor}): each multi-index is accessed as index pack, std::array, std::span and class-type indices with random integer argument types; the returned address, the accessor call log (exactly one access(handle, offset)) and a whole-buffer diff after one write are compared with the model and with the statement; bracket (C++23) and paren (C++20) spellings are both built.',
   tech='Lean 4 proof of the view/storage refinement + C01 range theorem + transcript correspondence with a logging accessor',
   note='Address = handle + offset is the model of data_handle()[i].'),
 'C11': dict(ref='7/C11', partial='object semantics are modelled as values (triples); an empty data-handle type (outer EN/EE pair) is not instantiated.',
   text='Theorems C11_step / C11_run: for every sequence of construct / copy / move / assign / move-assign / swap operations on a pool, the views stored as __compressed_pair<handle, __compressed_pair<mapping, accessor>> (any of the 4 x 4 specialisation combinations, an empty component not being stored at all) read back exactly the triples supplied; C11_swap_spec, C11_assign_spec. Tied by random op sequences with an observation after every step on instantiations that reach inner pairs NN/NE/EN/EE and outer NN/NE, in a [[no_unique_address]] build and in a forced-emulation build (hook), element storage PROT_NONE for the whole sequence (any read or write of an element is a SIGSEGV) and a buffer diff at the end.',
   tech='Lean 4 refinement proof over operation histories + transcript correspondence in attribute and emulation builds',
   note='The emulation path is forced by the KOKKOS_MDSPAN_VERIF hook.'),
 'C13': dict(ref='7/C13', partial=None,
   text='Theorems C13_size (size = product, any rank), C13_empty, C13_rank0 and the equality of the C++14 fold emulations with the fold expressions (foldTimesEmu_eq, foldOrEmu_eq, foldAndEmu_eq). Tied by observing size(), empty(), rank(), rank_dynamic(), extent(r), static_extent(r), stride(r) and the flag forwarders of mdspan after construction and after conversion, for zero extents in every position and extents whose product is at the top of the index type, against the machine-layer model (size folded in size_t and returned as size_type) and the statement.',
   tech='Lean 4 proof + transcript correspondence', note='The C++14 configuration is exercised by C15 only.'),
 'C12': dict(ref='7/C12', partial='containers are modelled as lists with a buffer identity; allocator-taking constructors are instantiated with std::allocator only (no pmr / stateful allocators); for std::array containers the library does not check that N >= required_span_size() (theorem C12_array_unchecked), which is treated as a precondition.',
   text='Theorems C12_ctor_size_vector/array, C12_ctor_value_init, C12_adopt_keeps, C12_access(_inb) (every access hits a cell below the container size, via C01_range), C12_write_frame (a write changes exactly its cell, via C01_inj), C12_view_alias(_rw), C12_copy_independent, C12_move_transfers, C12_size, and the history theorems C12_step_inv / C12_run / C12_run_access_safe: for every sequence of construct / adopt / copy / move / assign / write operations the invariant (container length >= span for live objects, pairwise distinct buffers) holds in every reachable state. Tied by random op sequences on mdarray<int, E, L, vector|array<int,64>> (7 layouts x 3 index types x 6 patterns) with observations of extents, strides, container size, size(), all container elements, aliasing between every pair of live objects and views, const and non-const reads and the position of the referenced element inside the container, compared with the model (APool) and with an independent executable statement of the property.',
   tech='Lean 4 invariant proof over operation histories + transcript correspondence of op sequences',
   note='The pinned tree returned container().size() from size() (fixed: f73e550).'),
 'C16': dict(ref='7/C16', partial='overload resolution and the type traits are the compiler\'s; the model speaks about type descriptors and constraint expressions.',
   text='Theorems C16_ext_constructible/explicit, implicit_total, C16_map_constructible / C16_map_explicit / C16_map_convertible / C16_map_mandates (Impl = Spec for all five layouts, every rank, every static/dynamic pattern and padding value), C16_lr_rank, C16_stride_to_lr_explicit, C16_to_stride_implicit, C16_acc, C16_mds, C16_mds_convertible, C16_indexArgs/indexCall/arrayArg(_explicit)/mdsIndexCtor, map_implicit_total and implicit_to_stride_total (an implicit conversion has no precondition). Tied by is_constructible_v / is_convertible_v / is_invocable_v probes over 3500 (thorough 20000) ordered pairs from a universe of 351 mapping types, 400 mdspan pairs and 700 argument packs, compared with the Impl.* functions and with an independent encoding of the specification table; every conversion the traits accept is also instantiated (a body that does not compile is a violation) and sampled Mandates-violating pairs must be rejected by the compiler.',
   tech='Lean 4 proof (Impl = Spec) + compile-time trait probes + instantiation and mandate probes',
   note='Two genuine defects were found here and repaired (inverted Mandates check; left_padded<->right_padded conversion across extents types did not compile).'),
 'C17': dict(ref='7/C17', partial='class template argument deduction, member typedefs and noexcept are facts the compiler computes; the Lean part covers the recursions and relations (dextents, size_type), the rest is a rule table compared by probes.',
   text='Theorems C17_dextents (the __make_dextents recursion yields dynamic_extent x N for every N), C17_ctad_ints, C17_size_type / C17_size_type_holds (size_type is the unsigned counterpart of index_type and holds every non-negative index value). Tied by decltype probes of every deduction guide (extents(ints...), mdspan(ptr, ints...), array/span, pointer, C array, extents, mapping, mapping+accessor; layout_left/right/stride::mapping deduction) over argument-type combinations, 8 index types x 6 patterns x 5 layouts, 18 member-type identities (mdspan, extents, mapping, mdarray) and 27 noexcept facts per instantiation.',
   tech='Lean 4 proof of the recursive/relational rules + compile-time probes', note='noexcept of padded mapping constructors is not compared (not fixed by the revision the code follows).'),
 'C18': dict(ref='7/C18', partial='the size formulas are the ABI model (Itanium C++ ABI, LP64): fitted to and compared with sizeof on every probe, not derived in Lean.',
   text='Theorems C18_ext (empty iff no dynamic extent; otherwise rank_dynamic x sizeof(index_type)), C18_ext_mono, C18_lr (left/right add nothing), C18_stride (adds exactly rank strides), C18_padded (at most one padded stride up to alignment), C18_mds_pointer_sized / C18_mds_lr_static, C18_mds_ge, dsizePadded_le about closed size formulas. Tied by sizeof / is_empty_v / is_trivially_copyable_v probes of extents, all mappings and mdspan (default and stateful accessor, incl. reuse of the mapping\'s tail padding) over 8 index types x all patterns of rank 0-2 (thorough 0-3) x 8 layouts; sizes in [[no_unique_address]] builds, triviality also in forced-emulation builds; the statement itself is evaluated on the measured numbers.',
   tech='Lean 4 proof about the size formulas + sizeof/is_empty/is_trivially_copyable probes', note='A first version of the mdspan formula ignored tail-padding reuse; the probes refuted it and the model was corrected (DESIGN.md, false alarms).'),
 'C19': dict(ref='7/C19', partial='the C++ memory model and the scheduler are not modelled; ThreadSanitizer observes the schedules that occur. The purity assumption of the model (no hidden mutable state) is regenerated from the source by the AST extractor on every run.',
   text='Theorems raceFree_of_disjoint (threads on disjoint index sets of one valid shared view never write an address another thread touches - from C01_inj), readLog_isolated, readLog_schedule_indep, runMem_schedule_indep, runMem_eq and C19_schedule_indep: for ANY two schedules of the same per-thread programs the final buffer and every thread\'s reads coincide; each cell holds the last write of its owning thread. Tied by (a) an extractor over clang\'s JSON AST of mdspan.hpp + mdarray.hpp run on every check: all variables with static/thread storage under /repo/include are constexpr, no mutable member, no const_cast, no atomics; (b) a ThreadSanitizer op server: 2-8 threads on a shared const mdspan (5 layouts x 3 index types x 5 patterns), writes through the shared view, private copies and concurrently created sub-views, observers called meanwhile; any TSan report is a violation and the final buffer / per-thread sums must equal the model\'s.',
   tech='Lean 4 proof over all schedules + source-derived purity facts (AST extractor) + ThreadSanitizer correspondence',
   note='Quick tier: 2 repetitions of ~140 scenarios; thorough: 10 repetitions with up to 8 threads.'),
 'C15': dict(ref='7/C15', partial='that two compilers implement the same abstract machine is an observation on the scenarios run, not a theorem; the theorems cover the alternative implementation paths inside the library.',
   text='Theorems about the alternative code paths the configuration macros select: the four __compressed_pair specialisations refine the ordinary pair and C11_run holds for every combination (attribute vs emulation), foldTimesEmu_eq / foldOrEmu_eq / foldAndEmu_eq (C++14 fold emulations = fold expressions), C08_ne_not_eq (hand-written operator!= = negation of ==), C20_canonical_passes (valid input never trips the debug stride check). Tied by running the same op lines (map, sub and view families; admissible lines) through the same op-server sources in {g++, clang++} x {c++17, 20, 23} x {attribute, emulation} x {O0, O2} x {NDEBUG, assertions, assertions + _MDSPAN_DEBUG} x {bracket, paren} and a C++14-only server in four C++14 configurations; every transcript must equal the single model transcript (so all configurations agree with one another), a configuration that does not compile or a server that dies on a valid input is a violation.',
   tech='Lean 4 proofs of path equivalence + one-model-many-configurations transcript correspondence',
   note='Quick tier: 4 + 2 configurations on a reduced instantiation matrix (about 2 minutes cold); thorough: 11 + 4 configurations on the full matrix.'),
}

# ---- additions made after the seeded-change campaign (appended to the texts above)
EXTRA_TEXT = {
 'C02': " Every instantiation is also default-constructed (large static extents included) and its strides compared (theorem C02_default_stride).",
 'C03': " Added later: theorems C03_forms_agree and C03_access (for every admissible mapping per the executable predicate admB, every in-bounds multi-index and every integer argument type that can represent it, each access form executes no UB and designates exactly data_handle + mapping(idx), inside the span - built on C14_adm_offset and C01_range). Instantiations now include an accessor with a non-pointer handle and proxy references, an empty data-handle type, a decoy accessor (stateless, raw pointer, plain reference, but access() is not p[i]), a logging user layout that records the indices it receives, a decoy user layout (always unique and exhaustive, not the identity) and the rank-1 m[i] spelling.",
 'C04': " Added later: the mdspan-level submdspan is run with a logging accessor (new handle = exactly one accessor.offset(handle, offset) call, accessor = offset_policy(accessor), same mapping as submdspan_mapping) and views of views (depth 2) are compared element by element with the root; strided_slice kinds with static unit stride, static empty extent and constants of different types are instantiated.",
 'C06': " Added later: static extents equal to numeric_limits<index_type>::max() of narrow index types, and comparison operands that are congruent modulo the narrower index type.",
 'C07': " Added later: the is_X / is_always_X forwarders of mdspan (incl. user layouts whose is_always_unique differs from is_strided) and of mdarray are compared with their mapping's answers in this check.",
 'C08': " Added later: the quick tier also builds C++17 (hand-written operator!=), and comparison operands congruent modulo the narrower index type are generated.",
 'C11': " Added later: pools hold views with DIFFERENT mappings of the same type (so that swap / assignment of the mapping is observable), an accessor with an empty data-handle type reaches the outer EN/EE pairs, conversions to all-static extents are exercised, and an assertion + _MDSPAN_DEBUG configuration is built.",
 'C13': " Added later: theorems C13_sizeM / C13_sizeM_exact / C13_emptyM relate the size_t fold of the machine model to the product; static zero extents are instantiated; the C++14-only server runs under UBSan with shapes (b,b,0) / (0,b,b) whose product is 0 but whose partial products exceed the signed index type.",
 'C14': " Added later: umbrella theorems C14_adm_offset / C14_adm_span / C14_adm_stride / C14_adm_exh: whenever the EXECUTABLE admissibility predicate admB (the one the driver prints and the checks use) holds, operator(), required_span_size(), stride(r), is_exhaustive() of all five layouts return ok of the mathematical value for all eight index types; in total 35 audited refinement theorems (padded layouts, stride loops, dot product, is_exhaustive, submdspan extents / strides, padded constructor). Conversions and submdspan_mapping are additionally evaluated in constant expressions.",
 'C15': " Added later: the conv family (mapping conversions / comparisons) is part of the sweep.",
 'C16': " Added later: class-type index arguments whose const / non-const conversions differ and the rank-1 m[i] overload are probed.",
 'C20': " Added later: C20_walkLeftM_refines / C20_walkRightM_refines prove the machine-layer walk equal to the pure one for admissible extents; stride tuples congruent to the canonical ones modulo the target index type and conversions inside static initialisers with constant operands are exercised.",
}
# ---- additions of the second seeded round (DESIGN.md 12.6)
EXTRA2 = {
 'C01': " Second round: default-constructed mappings are evaluated at every multi-index (dfltoff) in C++20 and C++17 builds.",
 'C02': " Second round: the quick tier also builds C++17.",
 'C03': " Second round: views whose offsets lie in the upper half of 8/16-bit unsigned index types; UB observation at -O0.",
 'C05': " Second round: required_span_size() of default-constructed mappings (exact / bounds) in C++20 and C++17 builds; static zero extents in every position relative to the dynamic ones.",
 'C06': " Second round: an assertions + _MDSPAN_DEBUG build runs every valid line (a tripped debug check is a violation).",
 'C07': " Second round: strides whose stride*extent is congruent to the element count modulo 2^bits (wrap-congruent gaps).",
 'C08': " Second round: static / mixed extents patterns on both sides (theorems convertG_eq, C08_convG_offset: destinations with a compile-time padded stride, every source kind); pairs for which no conversion is specified are probed on the implementation (a conversion that exists and changes the mapping is a violation); equality completeness against layout_stride; permuted exhaustive strides.",
 'C11': " Second round: conversion of a view with the empty default accessor into one with a stateful accessor (theorem C11_convert_abs: every component goes through its own conversion whatever specialisations store source and target).",
 'C12': " Second round: every constructor form (integer pack, extents / mapping x container const& / && x allocator, converting constructor with and without allocator), two different mappings of the same type per history, all four view-producing members read through.",
 'C13': " Second round: a user 'broadcast' layout (valid mapping of span 1) with extents whose product wraps to 0 in size_type: size() is the wrapped product, empty() stays false.",
 'C14': " Second round: UB is observed on -O0 builds (at -O1 GCC removes the overflow check of a value that ends up unused); boundary-end stream for submdspan_mapping; theorem C14_default_strides (default construction of layout_stride).",
 'C15': " Second round: default-constructed mappings are compared in every configuration.",
 'C16': " Second round: the quick tier also builds C++17 (enable_if spellings of the constraints).",
 'C17': " Second round: proxy-reference and value-reference accessors in the 3-argument deduction guide; mdspan's own noexcept guarantees over a user layout none of whose members is noexcept.",
 'C19': " Second round: the AST facts are extracted in four configurations (C++20; C++17 + emulation hook; _MDSPAN_DEBUG; C++23 NDEBUG).",
}
# ---- rounds 3-5 (DESIGN.md 12.7-12.9)
EXTRA3 = {
 'C01': " Later rounds: padding argument of a narrower C++ type than index_type.",
 'C02': " Later rounds: strides of every mapping converted to another extents type of the same layout (cvs); padding argument types.",
 'C03': " Later rounds: assertions + _MDSPAN_DEBUG and both-operators-forced configurations; accessor whose access() returns a reference into the accessor object; throwing accessor (the exception must reach the caller in every spelling - this found and led to the repair of defect F10, repo commit 6034f7a); the driver's at op literally evaluates Model/Access.accessOffset.",
 'C04': " Later rounds: theorems C14_sub_mapping / C04_sub_alias_machine / C04_chain_alias_machine: under the executable predicate subAdm (subChainAdm) the machine-level submdspan_mapping (and chains of them) that the driver runs against the C++ executes no UB and every element address it prints is the root offset of the composed index, inside the root span; views of views (ch) are run against subChainM; enum and class-type index slices; a user layout providing the submdspan_mapping customization point; rank 4-5 slice tuples.",
 'C05': " Later rounds: padding argument types; empty index spaces with huge strides.",
 'C06': " Later rounds: ranks 4-7 in conversion / comparison, C++17 configuration (hand-written operator!=) in the quick tier.",
 'C07': " Later rounds: mdarray over user layouts whose three flags differ.",
 'C08': " Later rounds: the same mixed pattern on both sides, one-dynamic-extent-differs operands, index spaces exactly filling the narrower index type, a dying server on a valid line is a violation.",
 'C10': " Later rounds: subLayout_admB (the sub-view of an admissible view is admissible) and C14_sub_chain (any depth at the machine level); chains from compile-time-empty first levels; boundary-end stream.",
 'C11': " Later rounds: C11_history_origin (after any history every view is exactly one that was supplied to a constructor); number of accessor calls made by a history must be 0.",
 'C14': " Later rounds: C14_sub_mapping, C14_sub_chain, C14_default_strides; admissibility by the letter of the property for layout_stride mappings that are valid only because an extent is zero.",
 'C15': " Later rounds: theorem C15_debug_checks_silent over a model of every run-time debug check of the library, tied to the source by an extractor of the assert / std::abort sites (vf/sites.py, lean/debug_sites.json); mixed-pattern extents construction in the C++14-only server.",
 'C16': " Later rounds: layout_stride (extents, array/span) constructor probes with class types whose const / non-const conversions differ; all cv combinations for default_accessor / mdspan conversions (Model/ElemCv, C16_acc_cv).",
 'C17': " Later rounds: exact type identity in the probes, member types over a user layout with its own size_type, stride-array constructor with throwing-copy / move-only elements.",
 'C18': " Later rounds: sizes compared for clang++ and g++ in C++17 as well.",
 'C20': " Later rounds: NDEBUG + _MDSPAN_DEBUG and assertions + _MDSPAN_DEBUG configurations; extents at the top of the narrower index type; the stride-walk sites are compared with the modelled ones (vf/sites.py).",
}
for k, v in EXTRA3.items(): EXTRA2[k] = EXTRA2.get(k, '') + v
for k, v in EXTRA2.items(): EXTRA_TEXT[k] = EXTRA_TEXT.get(k, '') + v
PARTIAL_OVERRIDE = {
 'C03': 'references are modelled as addresses (offset from the buffer base); C++ aliasing/lifetime rules are outside the model.',
 'C11': 'object semantics are modelled as values (triples).',
}
for k, v in EXTRA_TEXT.items(): CLAIMS[k]['text'] += v
for k, v in PARTIAL_OVERRIDE.items(): CLAIMS[k]['partial'] = v

NOT_YET = 'check not built yet (work in progress; DESIGN.md section 7 describes the planned proof and correspondence)'

def main():
    checks = []; na = []
    for p in props:
        pid = p['id']
        if pid in CLAIMS:
            c = CLAIMS[pid]
            checks.append(dict(property_id=pid, quick_cmd='python3 check.py %s --tier quick' % pid, thorough_cmd='python3 check.py %s --tier thorough' % pid,
                evidence_file='evidence/%s.json' % pid, replay_cmd_template='python3 check.py %s --replay {path}' % pid, engine='lean-proof+correspondence',
                level_claimed=dict(category='proof', text=(('PARTIAL: ' + c['partial'] + ' ') if c['partial'] else '') + c['text'], design_ref='DESIGN.md section ' + c['ref']),
                level_note=TB + c['note'], technique=c['tech']))
        else:
            na.append(dict(property_id=pid, reason=NOT_YET))
    kf = json.load(open(os.path.join(HERE, 'known_findings.json')))
    m = dict(version=1, setup_cmd='python3 check.py --setup',
        hooks=dict(guard='KOKKOS_MDSPAN_VERIF', enable='-DKOKKOS_MDSPAN_VERIF -DKOKKOS_MDSPAN_VERIF_FORCE_NUA_EMULATION on the harness compile line (header-only library: checks compile /repo/include directly)',
                   baseline_off_cmd='bash tools/baseline_off.sh', source_commits=kf.get('hook_commits', []), add_only=True),
        engines=[dict(name='lean-proof+correspondence', path='check.py', serves_properties=[c['property_id'] for c in checks],
                      kind_free_text='Lean 4 theorems about a hand-written model (lean/MdspanVerif) + differential correspondence of the model\'s executable definitions (native lean_exe mddriver) against op servers compiled from /repo/include')],
        checks=checks, not_applicable=na,
        notes='Genuine defects found and repaired are listed in known_findings.json (fixed: entries) and DESIGN.md section 6.')
    json.dump(m, open(os.path.join(HERE, 'MANIFEST.json'), 'w'), indent=1)
    print('MANIFEST: %d checks, %d not_applicable' % (len(checks), len(na)))
main()
