"""Extractor for C15 (and C20): the run-time checks the library compiles only in debug configurations, regenerated from the source
on every run: every `assert(...)` (not static_assert) and every `std::abort()` under /repo/include, as (file, normalised text).
The committed table lean/debug_sites.json maps each site to the constructor of `Mdspan.DebugCheck` (Props/C15b.lean) that models it;
a site that is new, gone or whose condition changed is a broken correspondence: theorem C15_debug_checks_silent no longer speaks
about the code as it is."""
import os, re, json
def extract(include_dir):
    out = []
    for root, dirs, files in os.walk(include_dir):
        dirs.sort()
        for f in sorted(files):
            if not f.endswith(('.hpp', '.h')): continue
            p = os.path.join(root, f); txt = open(p, errors='replace').read()
            txt = re.sub(r'//[^\n]*', '', txt); txt = re.sub(r'/\*.*?\*/', '', txt, flags=re.S)
            for m in re.finditer(r'(?<![A-Za-z_])(assert|std::abort|abort|MDSPAN_IMPL_PRECONDITION|_MDSPAN_ASSERT)\s*\(', txt):
                if txt[max(0, m.start() - 7):m.start()].endswith('static_'): continue
                i = m.end(); depth = 1
                while i < len(txt) and depth:
                    depth += txt[i] == '('; depth -= txt[i] == ')'; i += 1
                start = m.start()
                if 'abort' in m.group(1):      # the guarding condition belongs to the site: back to the previous statement boundary
                    j = max(txt.rfind(';', 0, start), txt.rfind('{', 0, start), txt.rfind('}', 0, start)); start = j + 1
                stmt = re.sub(r'\s+', ' ', txt[start:i]).strip()
                out.append(dict(file=os.path.relpath(p, include_dir), text=stmt))
    return out
def compare(include_dir, table_path):
    got = extract(include_dir); want = json.load(open(table_path))['sites']
    key = lambda s: (s['file'], s['text'])
    gk = sorted(key(s) for s in got); wk = sorted(key(s) for s in want)
    import collections
    gc, wc = collections.Counter(gk), collections.Counter(wk)
    new = sorted((gc - wc).elements()); gone = sorted((wc - gc).elements())
    return got, new, gone
