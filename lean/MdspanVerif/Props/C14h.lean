import MdspanVerif.Props.C14g
import MdspanVerif.Model.Adm
import MdspanVerif.Model.LayoutI
/-!
# C14 — the umbrella: the executable admissibility predicate implies the refinement theorems

`Layout.admB T L` is what the driver prints as `adm` for every op line.  The theorems of this file
say that `adm = 1` is sufficient for every member function of the mapping to execute without UB
in index type `T` and to return the mathematical value:

* `C14_adm_offset`  — `operator()` on an index inside the extents,
* `C14_adm_span`    — `required_span_size()` (zero extents allowed),
* `C14_adm_stride`  — `stride(r)`,
* `C14_adm_exh`     — `is_exhaustive()`.
-/
namespace Mdspan

/-- a pure mapping as a run-time value of the machine layer -/
def Layout.toI : Layout → LayoutI
  | .left es => .left (Mdspan.toI es)
  | .right es => .right (Mdspan.toI es)
  | .stride es ss => .stride (Mdspan.toI es) (Mdspan.toI ss)
  | .lpad es ps => .lpad (Mdspan.toI es) (ps : Int)
  | .rpad es ps => .rpad (Mdspan.toI es) (ps : Int)

theorem Layout.toI_extents (L : Layout) : L.toI.extents = Mdspan.toI L.extents := by
  cases L <;> rfl

/-! ### what `admB` says -/

theorem allLe_iff (hi : Int) (l : List Nat) : allLe hi l = true ↔ ∀ x ∈ l, (x : Int) ≤ hi := by
  simp [allLe, List.all_eq_true]

theorem admB_elim (T : ITy) (L : Layout) (h : L.admB T = true) :
    L.validB = true ∧ ((L.span1 : Nat) : Int) ≤ T.hi ∧ (∀ e ∈ L.extents, (e : Int) ≤ T.hi) ∧
      (∀ s ∈ L.strides, (s : Int) ≤ T.hi) := by
  simp only [Layout.admB, Bool.and_eq_true, decide_eq_true_eq, allLe_iff] at h
  exact ⟨h.1.1.1, h.1.1.2, h.1.2, h.2⟩

/-! ### `one0` -/

theorem one0_eq (e : Nat) : one0 e = if e = 0 then 1 else e := rfl
theorem one0_pos (e : Nat) : 0 < one0 e := by unfold one0; split <;> omega
theorem le_one0 (e : Nat) : e ≤ one0 e := by unfold one0; split <;> omega
theorem one0_of_pos (e : Nat) (h : 0 < e) : one0 e = e := by unfold one0; split <;> omega
theorem one0_pred (e : Nat) : one0 e - 1 = e - 1 := by unfold one0; split <;> omega

theorem map_one0_pos (es : List Nat) : ∀ e ∈ es.map one0, 0 < e := by
  intro e he
  obtain ⟨x, _, rfl⟩ := List.mem_map.mp he
  exact one0_pos x

theorem map_one0_of_pos : ∀ es : List Nat, (∀ e ∈ es, 0 < e) → es.map one0 = es
  | [], _ => rfl
  | e :: es, h => by
    rw [List.map_cons, one0_of_pos e (h e (by simp)),
      map_one0_of_pos es (fun x hx => h x (List.mem_cons_of_mem _ hx))]

theorem prod_map_one0 : ∀ es : List Nat, prod (es.map one0) = prod1 es
  | [] => rfl
  | e :: es => by simp only [List.map_cons, prod, prod1, prod_map_one0 es, one0_eq]

theorem spanM1_zip_map_one0 : ∀ (es ss : List Nat),
    spanM1 (List.zip (es.map one0) ss) = spanM1 (List.zip es ss)
  | [], _ => by simp [spanM1]
  | _ :: _, [] => by simp [spanM1]
  | e :: es, s :: ss => by
    simp only [List.map_cons, List.zip_cons_cons, spanM1, one0_pred, spanM1_zip_map_one0 es ss]

/-! ### `span1` in the forms used by the refinement theorems -/

theorem span1_lr_left (es : List Nat) : (Layout.left es).span1 = prod1 es := prod_map_one0 es
theorem span1_lr_right (es : List Nat) : (Layout.right es).span1 = prod1 es := prod_map_one0 es

/-- the admissibility measure of layout_stride is `1 + Σ (max(e,1) - 1)·s = 1 + Σ (e ∸ 1)·s` -/
theorem span1_stride (es ss : List Nat) (hl : es.length = ss.length) :
    (Layout.stride es ss).span1 = 1 + spanM1 (List.zip es ss) := by
  show spanStrideGo 1 (es.map one0) ss = _
  rw [spanStrideGo_pos 1 _ ss (map_one0_pos es) (by simpa using hl), spanM1_zip_map_one0]

theorem span1_lpad (es : List Nat) (ps : Nat) : (Layout.lpad es ps).span1 = lpadSpan1 ps es := by
  match es with
  | [] => rfl
  | [e] => rfl
  | e :: e' :: es =>
    show one0 ps * prod ((e' :: es).map one0) = prod1 (ps :: e' :: es)
    rw [prod_map_one0]; rfl

theorem replaceLast_map_one0 (ps : Nat) : ∀ es : List Nat,
    replaceLast (one0 ps) (es.map one0) = (replaceLast ps es).map one0
  | [] => rfl
  | [_] => rfl
  | e :: e' :: es => by
    have ih := replaceLast_map_one0 ps (e' :: es)
    simp only [List.map_cons, replaceLast] at ih ⊢
    rw [ih]

theorem span1_rpad (es : List Nat) (ps : Nat) : (Layout.rpad es ps).span1 = rpadSpan1 ps es := by
  match es with
  | [] => rfl
  | [e] => rfl
  | e :: e' :: es =>
    show rpadSpanGo (one0 ps) 1 ((e :: e' :: es).map one0) = prod1 (replaceLast ps (e :: e' :: es))
    rw [prod_replaceLast (one0 ps) 1 _ (by simp), replaceLast_map_one0, prod_map_one0, Nat.one_mul]

/-- the span never exceeds the admissibility measure -/
theorem lpadSpan_le_lpadSpan1 (ps : Nat) (es : List Nat) : lpadSpan ps es ≤ lpadSpan1 ps es := by
  match es with
  | [] => exact Nat.le_refl _
  | [e] => show e ≤ if e = 0 then 1 else e; split <;> omega
  | e :: e' :: es =>
    show ps * prod (e' :: es) ≤ prod1 (ps :: e' :: es)
    simp only [prod1]
    exact Nat.mul_le_mul (by split <;> omega) (prod_le_prod1 (e' :: es))

theorem rpadSpan_le_rpadSpan1 (ps : Nat) (es : List Nat) : rpadSpan ps es ≤ rpadSpan1 ps es := by
  match es with
  | [] => exact Nat.le_refl _
  | [e] => show e ≤ if e = 0 then 1 else e; split <;> omega
  | e :: e' :: es =>
    show rpadSpanGo ps 1 (e :: e' :: es) ≤ prod1 (replaceLast ps (e :: e' :: es))
    rw [prod_replaceLast ps 1 _ (by simp), Nat.one_mul]
    exact prod_le_prod1 _

theorem span_le_span1 (L : Layout) (hl : L.strides.length = L.extents.length) : L.span ≤ L.span1 := by
  cases L with
  | left es => rw [span1_lr_left]; exact prod_le_prod1 es
  | right es => rw [span1_lr_right]; exact prod_le_prod1 es
  | stride es ss =>
    have hl' : es.length = ss.length := hl.symm
    rw [span1_stride es ss hl']
    by_cases h0 : 0 ∈ es
    · rw [C05_stride_zero es ss hl' h0]; omega
    · have hpos : ∀ e ∈ es, 0 < e := by
        intro e he
        rcases Nat.eq_zero_or_pos e with h | h
        · subst h; exact absurd he h0
        · exact h
      show spanStrideGo 1 es ss ≤ _
      rw [spanStrideGo_pos 1 es ss hpos hl']; omega
  | lpad es ps => rw [span1_lpad]; exact lpadSpan_le_lpadSpan1 ps es
  | rpad es ps => rw [span1_rpad]; exact rpadSpan_le_rpadSpan1 ps es

/-! ### `validB` in the forms used by the refinement theorems -/

theorem validB_stride_length (es ss : List Nat) (h : (Layout.stride es ss).validB = true) :
    es.length = ss.length := by
  simp only [Layout.validB, Bool.and_eq_true, beq_iff_eq] at h
  exact h.1.1

theorem validB_stride_valid (es ss : List Nat) (h : (Layout.stride es ss).validB = true) :
    ValidStrides (es.map one0) ss := by
  simp only [Layout.validB, Bool.and_eq_true] at h
  exact validStridesB_sound _ _ h.2

theorem validB_stride_pos (es ss : List Nat) (h : (Layout.stride es ss).validB = true) :
    ∀ s ∈ ss, 0 < s := by
  simp only [Layout.validB, Bool.and_eq_true, List.all_eq_true, decide_eq_true_eq] at h
  exact h.1.2

theorem validB_lpad (es : List Nat) (ps : Nat) (h : (Layout.lpad es ps).validB = true) :
    PadOKLeft ps es := by
  match es with
  | [] => exact Or.inl (by simp)
  | [e] => exact Or.inl (by simp)
  | e :: e' :: es =>
    rw [padOKLeft_iff]
    simp only [Layout.validB, Bool.or_eq_true, List.length_cons, List.headD_cons] at h
    rcases h with h | h
    · have := of_decide_eq_true h; omega
    · exact of_decide_eq_true h

theorem leL_replaceLast (ps : Nat) : ∀ es : List Nat, es ≠ [] → es.getLastD 0 ≤ ps →
    LeL es (replaceLast ps es)
  | [e], _, h => by
    simp only [List.getLastD_cons, List.getLastD_nil] at h
    exact ⟨h, trivial⟩
  | e :: e' :: es, _, h => by
    have ih := leL_replaceLast ps (e' :: es) (by simp) (by simpa [List.getLastD_cons] using h)
    exact ⟨Nat.le_refl _, ih⟩
  | [], hne, _ => absurd rfl hne

theorem validB_rpad (es : List Nat) (ps : Nat) (h : (Layout.rpad es ps).validB = true) :
    PadOKRight ps es := by
  match es with
  | [] => exact Or.inl (by simp)
  | [e] => exact Or.inl (by simp)
  | e :: e' :: es =>
    refine Or.inr (leL_replaceLast ps _ (by simp) ?_)
    simp only [Layout.validB, Bool.or_eq_true, List.length_cons] at h
    rcases h with h | h
    · have := of_decide_eq_true h; omega
    · exact of_decide_eq_true h

/-- the executable precondition implies the propositional one of C01 on a non-empty index space -/
theorem validB_valid (L : Layout) (h : L.validB = true) (hpos : ∀ e ∈ L.extents, 0 < e) : L.Valid := by
  cases L with
  | left es => trivial
  | right es => trivial
  | stride es ss =>
    have := validB_stride_valid es ss h
    rw [map_one0_of_pos es hpos] at this
    exact this
  | lpad es ps => exact validB_lpad es ps h
  | rpad es ps => exact validB_rpad es ps h

/-! ### operator() -/

/-- **C14 umbrella, operator()**: if the driver's predicate holds and the index is inside the
    extents, the call executes no UB in `T` and returns the mathematical offset. -/
theorem C14_adm_offset (T : ITy) (L : Layout) (is : List Nat) (h : L.admB T = true)
    (hb : InB is L.extents) :
    (L.toI).offM T (toI is) = .ok ((L.offset is : Nat) : Int) := by
  obtain ⟨hv, hsp, hre, hrs⟩ := admB_elim T L h
  cases L with
  | left es =>
    rw [span1_lr_left] at hsp
    exact C14_left_offset T es is hb hre (natCast_le_of_le (prod_le_prod1 es) hsp)
  | right es =>
    rw [span1_lr_right] at hsp
    exact C14_right_offset T es is hb hre (natCast_le_of_le (prod_le_prod1 es) hsp)
  | stride es ss =>
    have hl := validB_stride_length es ss hv
    rw [span1_stride es ss hl] at hsp
    exact C14_stride_offset T es ss is hb hl hre hrs hsp
  | lpad es ps =>
    rw [span1_lpad] at hsp
    exact C14_lpad_offset T ps es is hb (validB_lpad es ps hv) hre
      (natCast_le_of_le (lpadSpan_le_lpadSpan1 ps es) hsp)
  | rpad es ps =>
    rw [span1_rpad] at hsp
    exact C14_rpad_offset T ps es is hb (validB_rpad es ps hv) hre
      (natCast_le_of_le (rpadSpan_le_rpadSpan1 ps es) hsp)

/-! ### required_span_size() -/

/-- **C14 umbrella, required_span_size()**: zero extents allowed -/
theorem C14_adm_span (T : ITy) (L : Layout) (h : L.admB T = true) :
    (L.toI).spanM T = .ok ((L.span : Nat) : Int) := by
  obtain ⟨hv, hsp, hre, hrs⟩ := admB_elim T L h
  cases L with
  | left es => rw [span1_lr_left] at hsp; exact C14_span_lr T es hre hsp
  | right es => rw [span1_lr_right] at hsp; exact C14_span_lr T es hre hsp
  | stride es ss =>
    have hl := validB_stride_length es ss hv
    rw [span1_stride es ss hl] at hsp
    exact C14_span_stride T es ss hl hre hrs hsp
  | lpad es ps => rw [span1_lpad] at hsp; exact C14_lpad_span T ps es hre hsp
  | rpad es ps => rw [span1_rpad] at hsp; exact C14_rpad_span T ps es hre hsp

/-! ### stride(r) -/

theorem getD_of_getElem? {α : Type} (l : List α) (r : Nat) (d a : α) (h : l[r]? = some a) :
    l.getD r d = a := by
  simp [List.getD, h]

theorem toI_getD (l : List Nat) (r : Nat) : (toI l).getD r 0 = ((l.getD r 0 : Nat) : Int) := by
  simp only [toI, List.getD, List.getElem?_map]
  cases l[r]? <;> rfl

/-- **C14 umbrella, stride(r)** -/
theorem C14_adm_stride (T : ITy) (L : Layout) (r : Nat) (hr : r < L.extents.length)
    (h : L.admB T = true) :
    (L.toI).strideM T r = .ok ((L.strides.getD r 0 : Nat) : Int) := by
  obtain ⟨hv, hsp, hre, hrs⟩ := admB_elim T L h
  cases L with
  | left es =>
    rw [span1_lr_left] at hsp
    have hg : (leftStrides es).getD r 0 = leftStride es r := by
      apply getD_of_getElem?
      rw [leftStrides, leftStridesFrom_get 1 es r hr, Nat.one_mul]; rfl
    show leftStrideM T (toI es) r = _
    rw [C14_left_stride T es r hre hsp]; simp only [Layout.strides, hg]
  | right es =>
    rw [span1_lr_right] at hsp
    have hg : (rightStrides es).getD r 0 = rightStride es r := by
      apply getD_of_getElem?
      rw [rightStrides_get es r hr]; rfl
    show rightStrideM T (toI es) r = _
    rw [C14_right_stride T es r hre hsp]; simp only [Layout.strides, hg]
  | stride es ss =>
    show (pure ((toI ss).getD r 0) : M Int) = _
    rw [toI_getD]; rfl
  | lpad es ps =>
    rw [span1_lpad] at hsp
    have hg : (lpadStrides ps es).getD r 0 = lpadStrideP ps es r :=
      getD_of_getElem? _ _ _ _ (lpadStride_eq ps es r hr)
    show lpadStrideM T ps (toI es) r = _
    rw [C14_lpad_stride T ps es r hr hre hsp]; simp only [Layout.strides, hg]
  | rpad es ps =>
    rw [span1_rpad] at hsp
    have hg : (rpadStrides ps es).getD r 0 = rpadStrideP ps es r :=
      getD_of_getElem? _ _ _ _ (rpadStride_eq ps es r hr)
    show rpadStrideM T ps (toI es) r = _
    rw [C14_rpad_stride T ps es r hr hre hsp]; simp only [Layout.strides, hg]

/-! ### is_exhaustive() -/

theorem toI_getLastD : ∀ (es : List Nat) (d : Nat), (toI es).getLastD (d : Int) = ((es.getLastD d : Nat) : Int)
  | [], _ => rfl
  | e :: es, d => by
    simp only [toI_cons, List.getLastD_cons]
    exact toI_getLastD es e

theorem getLast?_eq_some_getLastD : ∀ (es : List Nat) (d : Nat), es ≠ [] → es.getLast? = some (es.getLastD d)
  | [e], _, _ => rfl
  | e :: e' :: es, d, _ => by
    have ih := getLast?_eq_some_getLastD (e' :: es) e (by simp)
    simp only [List.getLast?_cons_cons, List.getLastD_cons] at ih ⊢
    exact ih
  | [], _, h => absurd rfl h

/-- **C14 umbrella, is_exhaustive()**: also for empty index spaces (for layout_stride the
    zero-span branches do no arithmetic; otherwise all extents are positive and `validB` is the
    stride precondition, under which the size never exceeds the span) -/
theorem C14_adm_exh (T : ITy) (L : Layout) (h : L.admB T = true) :
    (L.toI).exhM T = .ok L.isExhaustive := by
  obtain ⟨hv, hsp, hre, hrs⟩ := admB_elim T L h
  cases L with
  | left es => rfl
  | right es => rfl
  | stride es ss =>
    have hl := validB_stride_length es ss hv
    rw [span1_stride es ss hl] at hsp
    show isExhStrideM T (toI es) (toI ss) = .ok (isExhStride es ss)
    by_cases h0 : 0 ∈ es
    · exact C14_is_exhaustive T es ss hl hre hrs hsp
        (by rw [(prod_eq_zero_iff es).mpr h0]; exact T.hi_nonneg)
    · have hpos : ∀ e ∈ es, 0 < e := by
        intro e he
        rcases Nat.eq_zero_or_pos e with h | h
        · subst h; exact absurd he h0
        · exact h
      have hvs := validB_stride_valid es ss hv
      rw [map_one0_of_pos es hpos] at hvs
      exact C14_is_exhaustive_valid T es ss hvs hre hrs hsp
  | lpad es ps =>
    show (pure (padIsExh (toI es).length ((toI es).headD 0) (ps : Int)) : M Bool) = .ok _
    match es with
    | [] => rfl
    | e :: es =>
      simp only [padIsExh, toI_cons, List.headD_cons, toI_length, natCast_beq, Layout.isExhaustive,
        List.head?_cons, List.length_cons]
      rfl
  | rpad es ps =>
    show (pure (padIsExh (toI es).length ((toI es).getLastD 0) (ps : Int)) : M Bool) = .ok _
    match es with
    | [] => rfl
    | e :: es =>
      have h1 := toI_getLastD (e :: es) 0
      have h2 := getLast?_eq_some_getLastD (e :: es) 0 (by simp)
      simp only [Layout.isExhaustive, h2, padIsExh, toI_length]
      rw [show ((0 : Int)) = ((0 : Nat) : Int) from rfl, h1, natCast_beq]
      rfl

/-! ### consequences -/

/-- all of `strides()` through `stride(r)` -/
theorem C14_adm_strides (T : ITy) (L : Layout) (hlen : L.strides.length = L.extents.length)
    (h : L.admB T = true) : (L.toI).stridesM T = .ok (toI L.strides) := by
  unfold LayoutI.stridesM
  rw [Layout.toI_extents, toI_length]
  have key : ∀ (n : Nat), n ≤ L.extents.length →
      (List.range n).mapM (L.toI.strideM T) = .ok (toI (L.strides.take n)) := by
    intro n
    induction n with
    | zero => intro _; rfl
    | succ n ih =>
      intro hn
      rw [List.range_succ, List.mapM_append, ih (by omega)]
      have hs := C14_adm_stride T L n (by omega) h
      simp only [List.mapM_cons, List.mapM_nil, hs, bind, Except.bind, pure, Except.pure]
      congr 1
      have hn' : n < L.strides.length := by omega
      rw [List.take_add_one, List.getD, List.getElem?_eq_getElem hn']
      simp only [toI, List.map_append, Option.toList_some, List.map_cons, List.map_nil, Option.getD_some]
      rfl
  have := key L.extents.length (Nat.le_refl _)
  rw [← hlen, List.take_length] at this
  rw [← hlen]; exact this

/-- the offsets delivered under `adm` are below the span delivered under `adm` (C01 through the
    machine layer): both values come out of the machine functions without UB -/
theorem C14_adm_offset_lt_span (T : ITy) (L : Layout) (is : List Nat) (h : L.admB T = true)
    (hb : InB is L.extents) :
    ∃ o s : Nat, (L.toI).offM T (toI is) = .ok (o : Int) ∧ (L.toI).spanM T = .ok (s : Int) ∧
      o < s ∧ (s : Int) ≤ T.hi := by
  refine ⟨L.offset is, L.span, C14_adm_offset T L is h hb, C14_adm_span T L h, ?_, ?_⟩
  · exact C01_range L (validB_valid L (admB_elim T L h).1 (inB_pos _ _ hb)) is hb
  · obtain ⟨hv, hsp, _, _⟩ := admB_elim T L h
    refine natCast_le_of_le (span_le_span1 L ?_) hsp
    cases L with
    | left es => simp [Layout.strides, Layout.extents, leftStrides, leftStridesFrom_length]
    | right es => simp [Layout.strides, Layout.extents, rightStrides_length]
    | stride es ss => exact (validB_stride_length es ss hv).symm
    | lpad es ps =>
      match es with
      | [] => rfl
      | [_] => rfl
      | _ :: _ :: _ => simp [Layout.strides, Layout.extents, lpadStrides, leftStridesFrom_length]
    | rpad es ps =>
      match es with
      | [] => rfl
      | [_] => rfl
      | e :: e' :: es =>
        show (rightStrides (replaceLast ps (e :: e' :: es))).length = _
        rw [rightStrides_length, replaceLast_length]; rfl

/-! ### `admB` on boundary inputs -/

example : (Layout.right [127]).admB .i8 = true := by decide
example : (Layout.right [128]).admB .i8 = false := by decide
example : (Layout.left [127, 0, 1]).admB .i8 = true := by decide
/-- zeros are counted as one: 16·0·8 has span 0 but is not admissible for `signed char` -/
example : (Layout.left [16, 0, 8]).admB .i8 = false ∧ (Layout.left [16, 0, 8]).span = 0 := by decide
example : (Layout.lpad [100, 1] 100).admB .i8 = true := by decide
example : (Layout.lpad [100, 1] 127).admB .i8 = true ∧ (Layout.lpad [100, 2] 100).admB .i8 = false := by decide
/-- a padded stride below the extent it pads is rejected by `validB` -/
example : (Layout.lpad [100, 1] 99).admB .i8 = false := by decide
example : (Layout.rpad [1, 100] 127).admB .i8 = true ∧ (Layout.rpad [1, 100] 99).admB .i8 = false := by decide
/-- a stride layout whose span is exactly 32767 = 1 + 2·16383 -/
example : (Layout.stride [3] [16383]).admB .i16 = true ∧ (Layout.stride [3] [16383]).span = 32767 := by decide
example : (Layout.stride [2, 2] [1, 32765]).admB .i16 = true ∧
    (Layout.stride [2, 2] [1, 32765]).span = 32767 ∧
    (Layout.stride [2, 2] [1, 32766]).admB .i16 = false := by decide
/-- overlapping strides are rejected by `validB` although the span fits -/
example : (Layout.stride [2, 2] [1, 1]).admB .i16 = false := by decide

/-- the machine functions on the boundary inputs, for comparison -/
example : (Layout.stride [2, 2] [1, 32765]).toI.spanM .i16 = .ok 32767 ∧
    (Layout.stride [2, 2] [1, 32765]).toI.offM .i16 (toI [1, 1]) = .ok 32766 ∧
    (Layout.lpad [100, 1] 100).toI.spanM .i8 = .ok 100 ∧
    (Layout.right [127]).toI.offM .i8 (toI [126]) = .ok 126 := by decide

end Mdspan
