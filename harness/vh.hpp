// Shared support of the op servers: registry, op-line parsing, canonical printing,
// per-line observation of UB traps (SIGILL/SIGFPE/SIGTRAP -> siglongjmp).
#pragma once
#include <cassert>
#include <mdspan/mdspan.hpp>
#include <cstdio>
#include <cstdlib>
#include <cstring>
#include <cstdint>
#include <csetjmp>
#include <csignal>
#include <string>
#include <vector>
#include <map>
#include <array>
#include <functional>
#include <sstream>
#include <iostream>
#include <type_traits>
#include <utility>

namespace md = Kokkos;
namespace mdx = Kokkos::Experimental;

namespace vh {

struct Op {
  std::vector<std::string> tok;                 // all tokens of the line
  std::map<std::string, std::string> kv;        // key=value tokens
  std::vector<std::string> plain;               // remaining tokens after the 3 header tokens
  std::vector<long long> ext, str, arg;
  long long pv = 0;
  std::string op;
  const std::string& get(const std::string& k) const { static const std::string e; auto it = kv.find(k); return it == kv.end() ? e : it->second; }
};
using Fn = std::function<std::string(const Op&)>;
inline std::map<std::string, Fn>& registry() { static std::map<std::string, Fn> r; return r; }

// values are transported as decimal text, possibly negative, possibly above LLONG_MAX (u64)
inline long long parseNum(const std::string& t) {
  if (t.empty()) return 0;
  if (t[0] == '-') return (long long)(0ull - std::stoull(t.substr(1)));
  return (long long)std::stoull(t);
}
inline std::vector<long long> parseList(const std::string& s, char sep = ',') {
  std::vector<long long> v; if (s == "-" || s.empty()) return v;
  std::stringstream ss(s); std::string t;
  while (std::getline(ss, t, sep)) v.push_back(parseNum(t));
  return v;
}
template <class T> std::string num(T v) {
  if constexpr (std::is_same_v<T, bool>) return v ? "1" : "0";
  else if constexpr (std::is_signed_v<T>) return std::to_string((long long)v);
  else return std::to_string((unsigned long long)v);
}
template <class T> std::string ok(T v) { return "ok " + num(v); }
template <class T, size_t N> std::string list(const std::array<T, N>& a) {
  if (N == 0) return "-";
  std::string s; for (size_t i = 0; i < N; i++) { if (i) s += ","; s += num(a[i]); } return s;
}
template <class T> std::string list(const std::vector<T>& a) {
  if (a.empty()) return "-";
  std::string s; for (size_t i = 0; i < a.size(); i++) { if (i) s += ","; s += num(a[i]); } return s;
}
template <class E> std::string extList(const E& e) {
  if (E::rank() == 0) return "-";
  std::string s; for (size_t i = 0; i < E::rank(); i++) { if (i) s += ","; s += num(e.extent(i)); } return s;
}
template <class E, size_t... K> E makeExt(const std::vector<long long>& e, std::index_sequence<K...>) {
  using I = typename E::index_type; return E(static_cast<I>(e[K])...);
}
template <class E> E makeExt(const std::vector<long long>& e) { return makeExt<E>(e, std::make_index_sequence<E::rank()>()); }
template <class M, size_t... K> auto callMap(const M& m, const std::vector<long long>& a, std::index_sequence<K...>) {
  using I = typename M::index_type; return m(static_cast<I>(a[K])...);
}
template <class M> auto callMap(const M& m, const std::vector<long long>& a) { return callMap(m, a, std::make_index_sequence<M::extents_type::rank()>()); }

inline std::vector<std::string> splitStr(const std::string& s, char c) { std::vector<std::string> o; std::stringstream ss(s); std::string t; while (std::getline(ss, t, c)) o.push_back(t); return o; }
inline sigjmp_buf& jb() { static sigjmp_buf b; return b; }
inline int& lastSig() { static int s = 0; return s; }
inline void onTrap(int sig) { lastSig() = sig; siglongjmp(jb(), 1); }

inline Op parseLine(const std::string& line) {
  Op o; std::stringstream ss(line); std::string t;
  while (ss >> t) o.tok.push_back(t);
  for (size_t i = 0; i < o.tok.size(); i++) {
    const std::string& x = o.tok[i]; auto p = x.find('=');
    if (p != std::string::npos) o.kv[x.substr(0, p)] = x.substr(p + 1);
    else if (i >= 3) o.plain.push_back(x);
  }
  o.ext = parseList(o.get("ext")); o.str = parseList(o.get("str")); if (o.kv.count("pv")) o.pv = parseNum(o.get("pv"));
  if (!o.plain.empty()) o.op = o.plain[0];
  if (o.plain.size() >= 2) o.arg = parseList(o.plain[1]);
  return o;
}

// key = first three tokens joined by ':' plus optional pat= and sp= (instantiation identity)
inline std::string keyOf(const Op& o) {
  std::string k;
  for (size_t i = 0; i < 3 && i < o.tok.size(); i++) { if (i) k += ":"; k += o.tok[i]; }
  if (o.kv.count("pat")) k += ":" + o.get("pat");
  if (o.kv.count("spat")) k += ":" + o.get("spat");
  if (o.kv.count("sp")) k += ":" + o.get("sp");
  if (o.kv.count("k")) k += ":" + o.get("k");
  return k;
}

inline int serve() {
  struct sigaction sa{}; sa.sa_handler = onTrap; sigemptyset(&sa.sa_mask); sa.sa_flags = SA_NODEFER;
  sigaction(SIGILL, &sa, nullptr); sigaction(SIGFPE, &sa, nullptr); sigaction(SIGTRAP, &sa, nullptr); sigaction(SIGSEGV, &sa, nullptr); sigaction(SIGBUS, &sa, nullptr);
  std::string line;
  std::ios::sync_with_stdio(false);
  setvbuf(stdout, nullptr, _IOLBF, 1 << 16);   // a line must not be lost when a later line aborts the process
  while (std::getline(std::cin, line)) {
    if (line == "keys") { std::string s; for (auto& kv : registry()) { s += kv.first; s += " "; } puts(s.c_str()); continue; }
    Op o = parseLine(line);
    auto it = registry().find(keyOf(o));
    if (it == registry().end()) { puts("no-inst"); continue; }
    if (sigsetjmp(jb(), 1) == 0) { std::string r = it->second(o); puts(r.c_str()); }
    else puts((lastSig() == SIGSEGV || lastSig() == SIGBUS) ? "segv" : "ub");
  }
  fflush(stdout);
  return 0;
}
} // namespace vh
