import MdspanVerif.Props.C20
import MdspanVerif.Props.C14e
import MdspanVerif.Props.C06b
import MdspanVerif.Props.C14h
/-!
# C20 — machine level: the debug-only stride walk of `layout_left/right(layout_stride const&)`

`index_type stride = 1; for r: if (common_t(stride) != common_t(other.stride(r))) abort(); stride *= extent(r);`

The running product is multiplied by `extent(r)` after *every* comparison, also after the last
one, so the walk evaluates `Π extent(r)` completely when no comparison fails: the hypothesis under
which it is free of UB is the admissibility of the *target* mapping (`prod1 es ≤ max(index_type)`),
not merely the representability of the values that are compared.
-/
namespace Mdspan

theorem nz_mul_le (a e : Nat) :
    (if a * e = 0 then 1 else a * e) ≤ (if a = 0 then 1 else a) * (if e = 0 then 1 else e) := by
  by_cases ha : a = 0
  · simp [ha]; split <;> omega
  · by_cases he : e = 0
    · simp [ha, he]; omega
    · have : a * e ≠ 0 := Nat.mul_ne_zero ha he
      simp [ha, he, this]

/-- comparison of a `T` value with a `U` value in their common type -/
theorem V_eq_TU (T U : ITy) (a b : Nat) (ha : (a : Int) ≤ T.hi) (hb : (b : Int) ≤ U.hi) :
    V.eq ⟨T, a⟩ ⟨U, b⟩ = (a == b) := by
  have h := V.eq_iff ⟨T, a⟩ ⟨U, b⟩ (Int.natCast_nonneg _) ha (Int.natCast_nonneg _) hb
  rw [Bool.eq_iff_iff, h]
  simp only [beq_iff_eq]
  omega

/-- the walk from an arbitrary running product `p` -/
theorem walkGoM_refines (T U : ITy) : ∀ (p : Nat) (es ss : List Nat), es.length = ss.length →
    (∀ e ∈ es, (e : Int) ≤ T.hi) → (∀ s ∈ ss, (s : Int) ≤ U.hi) →
    (((if p = 0 then 1 else p) * prod1 es : Nat) : Int) ≤ T.hi →
    walkGoM T U p (toI es) (toI ss) = .ok (walkLeftFrom p es ss)
  | p, [], [], _, _, _, _ => rfl
  | p, e :: es, s :: ss, hl, hre, hrs, hadm => by
    have he := hre e (by simp)
    have hs := hrs s (by simp)
    have hp1 := prod1_pos es
    simp only [prod1] at hadm
    have hnzp : p ≤ (if p = 0 then 1 else p) := by split <;> omega
    have hnze : 0 < (if e = 0 then 1 else e) := by split <;> omega
    have hp : (p : Int) ≤ T.hi :=
      natCast_le_of_le (Nat.le_trans hnzp (Nat.le_mul_of_pos_right _ (Nat.mul_pos hnze hp1))) hadm
    have hstep : (if p * e = 0 then 1 else p * e) * prod1 es ≤
        (if p = 0 then 1 else p) * ((if e = 0 then 1 else e) * prod1 es) := by
      rw [← Nat.mul_assoc]; exact Nat.mul_le_mul_right _ (nz_mul_le p e)
    have hmul : ((p * e : Nat) : Int) ≤ T.hi := by
      refine natCast_le_of_le (Nat.le_trans ?_ hstep) hadm
      exact Nat.le_trans (by split <;> omega) (Nat.le_mul_of_pos_right _ hp1)
    have ih := walkGoM_refines T U (p * e) es ss (by simpa using hl)
      (fun x hx => hre x (List.mem_cons_of_mem _ hx)) (fun x hx => hrs x (List.mem_cons_of_mem _ hx))
      (natCast_le_of_le hstep hadm)
    simp only [toI_cons, walkGoM, walkLeftFrom]
    rw [V_eq_TU T U p s hp hs]
    by_cases hps : p = s
    · subst hps
      simp only [beq_self_eq_true, Bool.not_true, Bool.false_eq_true, if_false, ne_eq, not_true_eq_false]
      rw [mulT_ok T p e hp he hmul]
      simp only [bind, Except.bind]
      rw [narrow_id T _ _ hmul]
      exact ih
    · have hb : (p == s) = false := by simp [hps]
      simp only [hb, Bool.not_false, if_true, ne_eq, hps, not_false_eq_true]
      rfl
  | _, [], _ :: _, hl, _, _, _ => by simp at hl
  | _, _ :: _, [], hl, _, _, _ => by simp at hl

/-- **C20 (machine level), layout_left**: for every pair of index types the debug walk executes
    no UB and aborts exactly when the pure walk does (`C20_left`: iff the strides are not the
    canonical column-major ones), provided the target extents are admissible. -/
theorem C20_walkLeftM_refines (T U : ITy) (es ss : List Nat) (hl : es.length = ss.length)
    (hre : ∀ e ∈ es, (e : Int) ≤ T.hi) (hrs : ∀ s ∈ ss, (s : Int) ≤ U.hi)
    (hadm : ((prod1 es : Nat) : Int) ≤ T.hi) :
    walkLeftM T U (toI es) (toI ss) = .ok (walkLeft es ss) :=
  walkGoM_refines T U 1 es ss hl hre hrs (by simpa using hadm)

/-- **C20 (machine level), layout_right** -/
theorem C20_walkRightM_refines (T U : ITy) (es ss : List Nat) (hl : es.length = ss.length)
    (hre : ∀ e ∈ es, (e : Int) ≤ T.hi) (hrs : ∀ s ∈ ss, (s : Int) ≤ U.hi)
    (hadm : ((prod1 es : Nat) : Int) ≤ T.hi) :
    walkRightM T U (toI es) (toI ss) = .ok (walkRight es ss) := by
  unfold walkRightM walkRight
  rw [toI_reverse, toI_reverse]
  exact walkGoM_refines T U 1 es.reverse ss.reverse (by simp [hl])
    (fun e he => hre e (List.mem_reverse.mp he)) (fun s hs => hrs s (List.mem_reverse.mp hs))
    (by rw [prod1_reverse]; simpa using hadm)

/-- with the pure characterisation: abort iff the strides are not canonical -/
theorem C20_walkLeftM_iff (T U : ITy) (es ss : List Nat) (hl : es.length = ss.length)
    (hre : ∀ e ∈ es, (e : Int) ≤ T.hi) (hrs : ∀ s ∈ ss, (s : Int) ≤ U.hi)
    (hadm : ((prod1 es : Nat) : Int) ≤ T.hi) :
    ∃ b, walkLeftM T U (toI es) (toI ss) = .ok b ∧ (b = true ↔ ss ≠ leftStrides es) :=
  ⟨_, C20_walkLeftM_refines T U es ss hl hre hrs hadm, C20_left es ss hl⟩

theorem C20_walkRightM_iff (T U : ITy) (es ss : List Nat) (hl : es.length = ss.length)
    (hre : ∀ e ∈ es, (e : Int) ≤ T.hi) (hrs : ∀ s ∈ ss, (s : Int) ≤ U.hi)
    (hadm : ((prod1 es : Nat) : Int) ≤ T.hi) :
    ∃ b, walkRightM T U (toI es) (toI ss) = .ok b ∧ (b = true ↔ ss ≠ rightStrides es) :=
  ⟨_, C20_walkRightM_refines T U es ss hl hre hrs hadm, C20_right es ss hl⟩

/-- in terms of the driver's predicate: `adm = 1` for the *target* mapping (and source strides
    that are values of the source index type) makes the debug walk UB-free and exact -/
theorem C20_walkLeftM_adm (T U : ITy) (es ss : List Nat) (hl : es.length = ss.length)
    (h : (Layout.left es).admB T = true) (hrs : ∀ s ∈ ss, (s : Int) ≤ U.hi) :
    walkLeftM T U (toI es) (toI ss) = .ok (walkLeft es ss) := by
  obtain ⟨_, hsp, hre, _⟩ := admB_elim T _ h
  rw [span1_lr_left] at hsp
  exact C20_walkLeftM_refines T U es ss hl hre hrs hsp

theorem C20_walkRightM_adm (T U : ITy) (es ss : List Nat) (hl : es.length = ss.length)
    (h : (Layout.right es).admB T = true) (hrs : ∀ s ∈ ss, (s : Int) ≤ U.hi) :
    walkRightM T U (toI es) (toI ss) = .ok (walkRight es ss) := by
  obtain ⟨_, hsp, hre, _⟩ := admB_elim T _ h
  rw [span1_lr_right] at hsp
  exact C20_walkRightM_refines T U es ss hl hre hrs hsp

/-! ### the hypothesis is about the complete product

All compared values (1 and 65536) are representable and every comparison succeeds, but the
multiplication after the last comparison evaluates 65536·65536 in `int`: signed overflow.  The
weaker hypothesis "the product of all but the last extent is representable" (which is all the
comparisons need) is therefore not sufficient; `prod1 es ≤ max` is.  Such extents are not
admissible for a `layout_left::mapping<extents<int,…>>` in the first place.  For index types
narrower than `int` the product is computed in `int` and wraps on assignment (no UB). -/
example : walkLeftM .i32 .i32 (toI [65536, 65536]) (toI [1, 65536]) = .error .overflow := by decide
example : walkRightM .i32 .i32 (toI [65536, 65536]) (toI [65536, 1]) = .error .overflow := by decide
example : walkLeftM .i16 .i16 (toI [256, 256]) (toI [1, 256]) = .ok false := by decide
/-- boundary: `prod1 es = max` exactly -/
example : ((prod1 [127, 1] : Nat) : Int) ≤ ITy.i8.hi ∧
    walkLeftM .i8 .u64 (toI [127, 1]) (toI [1, 127]) = .ok false := by decide

end Mdspan
