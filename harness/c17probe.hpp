// C17 probes: CTAD results, member types, noexcept
#pragma once
#include "probe.hpp"
#include "viewsrv.hpp"
#include <mdspan/mdarray.hpp>
namespace vh {
template <class I> std::string ityName() {
  std::string s = std::is_signed_v<I> ? "i" : "u"; return s + std::to_string(sizeof(I) * 8);
}
template <class E> std::string descExt() { return "idx=" + ityName<typename E::index_type>() + " pat=" + patOf<E>(); }
template <class L> std::string layFull() {
  if (std::is_same_v<L, md::layout_left>) return "left"; if (std::is_same_v<L, md::layout_right>) return "right"; if (std::is_same_v<L, md::layout_stride>) return "stride";
  if (std::is_same_v<L, mdx::layout_left_padded<md::dynamic_extent>>) return "lpadD"; if (std::is_same_v<L, mdx::layout_right_padded<4>>) return "rpad4";
  return "other";
}
template <class V> std::string descMds() {
  using T = typename V::element_type; using A = typename V::accessor_type;
  std::string e = std::is_same_v<T, int> ? "int" : std::is_same_v<T, const int> ? "cint" : std::is_same_v<T, double> ? "double" : "other";
  std::string a = std::is_same_v<A, md::default_accessor<T>> ? "def" : std::is_same_v<A, StAcc<T>> ? "st" : "other";
  return "elem=" + e + " " + descExt<typename V::extents_type>() + " lay=" + layFull<typename V::layout_type>() + " acc=" + a;
}
// member types of an mdspan instantiation and its parts
template <class V> std::string memberTypes() {
  using E = typename V::extents_type; using M = typename V::mapping_type; using A = typename V::accessor_type; using I = typename E::index_type;
  std::string s = "size_type=" + ityName<typename V::size_type>() + " mt=";
  s += num(std::is_same_v<typename V::size_type, std::make_unsigned_t<I>>) + num(std::is_same_v<typename E::size_type, std::make_unsigned_t<I>>) + num(std::is_same_v<typename M::size_type, std::make_unsigned_t<I>>);
  s += num(std::is_same_v<typename V::rank_type, size_t>) + num(std::is_same_v<typename E::rank_type, size_t>) + num(std::is_same_v<typename M::rank_type, size_t>);
  s += num(std::is_same_v<typename V::index_type, I>) + num(std::is_same_v<typename M::index_type, I>);
  s += num(std::is_same_v<M, typename V::layout_type::template mapping<E>>) + num(std::is_same_v<typename M::extents_type, E>) + num(std::is_same_v<typename M::layout_type, typename V::layout_type>);
  s += num(std::is_same_v<typename V::reference, typename A::reference>) + num(std::is_same_v<typename V::data_handle_type, typename A::data_handle_type>);
  s += num(std::is_same_v<typename V::value_type, std::remove_cv_t<typename V::element_type>>);
  using AR = mdx::mdarray<int, E, typename V::layout_type>;
  s += num(std::is_same_v<typename AR::mapping_type, M>) + num(std::is_same_v<typename AR::index_type, I>) + num(std::is_same_v<typename AR::size_type, std::make_unsigned_t<I>>) + num(std::is_same_v<typename AR::rank_type, size_t>);
  return s;
}
template <class M, size_t... K> constexpr bool callNoexcept(std::index_sequence<K...>) { return noexcept(std::declval<const M&>()((typename M::index_type)(K)...)); }
template <class V, bool Padded> std::string noexcepts() {
  using E = typename V::extents_type; using M = typename V::mapping_type; constexpr size_t R = E::rank();
  std::string s = "ne=";
  s += num(noexcept(E::rank())) + num(noexcept(E::rank_dynamic())) + num(noexcept(E::static_extent(0))) + num(noexcept(std::declval<const E&>().extent(0)));
  s += num(noexcept(std::declval<const M&>().extents())) + num(noexcept(std::declval<const M&>().required_span_size())) + num(callNoexcept<M>(std::make_index_sequence<R>()));
  s += num(noexcept(M::is_always_unique())) + num(noexcept(M::is_always_exhaustive())) + num(noexcept(M::is_always_strided()));
  s += num(noexcept(std::declval<const M&>().is_unique())) + num(noexcept(std::declval<const M&>().is_exhaustive())) + num(noexcept(std::declval<const M&>().is_strided()));
  if constexpr (R > 0) s += num(noexcept(std::declval<const M&>().stride(0))); else s += "1";
  if constexpr (!Padded) {
    s += num(std::is_nothrow_copy_constructible_v<M>);
    if constexpr (std::is_constructible_v<M, const E&>) s += num(std::is_nothrow_constructible_v<M, const E&>); else s += "1";
  } else s += "11";
  s += num(noexcept(std::declval<const V&>().size())) + num(noexcept(std::declval<const V&>().empty())) + num(noexcept(std::declval<const V&>().extents())) + num(noexcept(std::declval<const V&>().data_handle()));
  s += num(noexcept(std::declval<const V&>().mapping())) + num(noexcept(std::declval<const V&>().accessor())) + num(noexcept(V::rank())) + num(noexcept(V::rank_dynamic())) + num(noexcept(V::static_extent(0)));
  s += num(noexcept(std::declval<const V&>().extent(0))) + num(noexcept(swap(std::declval<V&>(), std::declval<V&>())));
  return s;
}
} // namespace vh
