import MdspanVerif.Model.ConvertG
import MdspanVerif.Props.C08
/-!
# C08 for destination types with a compile-time padded stride (every source kind)

`C08_convS_offset` (C08.lean) covers `layout_left → left_padded` / `layout_right → right_padded`.
`convertG` covers every converting constructor of the padded mappings; under `ConvPreG` (the
precondition of `convert` plus "the compile-time padded stride equals the source's
`stride(padded_stride_idx)`") it is `convert`, so extents, offsets and strides are preserved.
-/
namespace Mdspan

/-- under `ConvPreG` the compile-time padded stride is the value the run-time constructor stores -/
theorem convertG_eq (src : Layout) (dst : LKind) (sps : Option Nat) (d : Layout)
    (h : convertG src dst sps = some d) (hp : ConvPreG src dst sps) : convert src dst = some d := by
  obtain ⟨_, hs⟩ := hp
  cases sps with
  | none => simpa [convertG] using h
  | some v =>
    rcases src with es | es | ⟨es, ss⟩ | ⟨es, ps⟩ | ⟨es, ps⟩ <;> cases dst <;>
      simp only [convertG, convert] at h ⊢
    all_goals first
      | exact h
      | (by_cases hle : es.length ≤ 1
         · have hn : ¬ (1 < es.length) := by omega
           simp [hle, hn, initPad2] at h ⊢
           first | exact h | (rw [← h])
         · simp [hle] at h)
      | (simp only [Layout.rank, Layout.extents] at hs
         rw [← h]
         by_cases hr : es.length > 1
         · simp [initPad, hr, hs hr]
         · simp [initPad, hr])

/-- **C08 (conversion into a type with a static padded stride).** Extents are copied. -/
theorem C08_convG_extents (src : Layout) (dst : LKind) (sps : Option Nat) (d : Layout)
    (h : convertG src dst sps = some d) (hp : ConvPreG src dst sps) : d.extents = src.extents :=
  C08_conv_extents src dst d (convertG_eq src dst sps d h hp)

/-- **C08 (conversion into a type with a static padded stride).** Every multi-index of the right
    length keeps its offset. -/
theorem C08_convG_offset (src : Layout) (dst : LKind) (sps : Option Nat) (d : Layout)
    (h : convertG src dst sps = some d) (hp : ConvPreG src dst sps) (hwf : src.WF) (is : List Nat)
    (hl : is.length = src.extents.length) : d.offset is = src.offset is :=
  C08_conv_offset src dst d (convertG_eq src dst sps d h hp) hp.1 hwf is hl

/-- the precondition is needed: `layout_stride{(2,3),(1,2)} → left_padded<4>::mapping<extents<int,2,3>>`
    (static padded stride 4) compiles and changes the mapping -/
example : convertG (.stride [2, 3] [1, 2]) .lpad (some 4) = some (.lpad [2, 3] 4) ∧
    ¬ ConvPreG (.stride [2, 3] [1, 2]) .lpad (some 4) ∧
    (Layout.lpad [2, 3] 4).offset [0, 1] = 4 ∧ (Layout.stride [2, 3] [1, 2]).offset [0, 1] = 2 := by
  decide
/-- non-vacuity: rank-3 sources of three kinds into a static padded stride 8 -/
example : ConvPreG (.stride [5, 2, 3] [1, 8, 16]) .lpad (some 8) ∧
    convertG (.stride [5, 2, 3] [1, 8, 16]) .lpad (some 8) = some (.lpad [5, 2, 3] 8) ∧
    ConvPreG (.lpad [5, 2, 3] 8) .lpad (some 8) ∧ ConvPreG (.right [2, 3, 8]) .rpad (some 8) ∧
    convertG (.right [2, 3, 8]) .rpad (some 8) = some (.rpad [2, 3, 8] 8) := by decide

end Mdspan
